package main

import (
	"context"
	"reflect"
	"sort"
	"strconv"
	"strings"
	"time"

	"github.com/ericlagergren/decimal"
)

// Canonical rendering of evaluation results, used wherever two executions of
// the real code are compared with each other (C08, C09) and as the readable
// form in samples. It never prints a pointer value.

func renderNum(n *decimal.Big) string {
	if n == nil {
		return "n:<nil>"
	}
	return "n:" + n.String()
}

// No fmt in anything tasks call: fmt's internal sync.Pool would insert
// happens-before edges between tasks and hide races from the detector.
func renderTime(t time.Time) string {
	name, off := t.Zone()
	return "t:" + strconv.FormatInt(t.Unix(), 10) + "." + strconv.Itoa(t.Nanosecond()) + "@" + name + strconv.Itoa(off) + "/" + t.Location().String()
}

func render(v interface{}) string {
	var b strings.Builder
	renderInto(&b, v, 0)
	return b.String()
}

func renderInto(b *strings.Builder, v interface{}, depth int) {
	if depth > 8 {
		b.WriteString("<deep>")
		return
	}
	switch x := v.(type) {
	case nil:
		b.WriteString("null")
	case bool:
		b.WriteString(strconv.FormatBool(x))
	case string:
		b.WriteString(strconv.Quote(x))
	case *decimal.Big:
		b.WriteString(renderNum(x))
	case float64:
		b.WriteString("f:" + strconv.FormatFloat(x, 'g', -1, 64))
	case float32:
		b.WriteString("f32:" + strconv.FormatFloat(float64(x), 'g', -1, 32))
	case int:
		b.WriteString("i:" + strconv.Itoa(x))
	case int8:
		b.WriteString("i8:" + strconv.FormatInt(int64(x), 10))
	case int16:
		b.WriteString("i16:" + strconv.FormatInt(int64(x), 10))
	case int32:
		b.WriteString("i32:" + strconv.FormatInt(int64(x), 10))
	case int64:
		b.WriteString("i64:" + strconv.FormatInt(x, 10))
	case uint, uint8, uint16, uint32, uint64:
		b.WriteString("u:" + strconv.FormatUint(reflect.ValueOf(x).Uint(), 10))
	case time.Time:
		b.WriteString(renderTime(x))
	case error:
		b.WriteString("error(" + x.Error() + ")")
	case context.Context:
		b.WriteString("ctx")
	case reflect.Value:
		b.WriteString("reflect.Value")
	case []interface{}:
		b.WriteString("[")
		for i, e := range x {
			if i > 0 {
				b.WriteString(",")
			}
			renderInto(b, e, depth+1)
		}
		b.WriteString("]")
	case map[string]interface{}:
		keys := make([]string, 0, len(x))
		for k := range x {
			keys = append(keys, k)
		}
		sort.Strings(keys)
		b.WriteString("{")
		for i, k := range keys {
			if i > 0 {
				b.WriteString(",")
			}
			b.WriteString(strconv.Quote(k) + ":")
			renderInto(b, x[k], depth+1)
		}
		b.WriteString("}")
	default:
		rv := reflect.ValueOf(v)
		switch rv.Kind() {
		case reflect.Func:
			b.WriteString("func")
		case reflect.Slice, reflect.Array:
			b.WriteString(rv.Type().String() + "[")
			for i := 0; i < rv.Len(); i++ {
				if i > 0 {
					b.WriteString(",")
				}
				renderInto(b, rv.Index(i).Interface(), depth+1)
			}
			b.WriteString("]")
		case reflect.Map:
			ks := rv.MapKeys()
			ss := make([]string, len(ks))
			for i, k := range ks {
				ss[i] = render(k.Interface())
			}
			idx := make([]int, len(ks))
			for i := range idx {
				idx[i] = i
			}
			sort.Slice(idx, func(a, c int) bool { return ss[idx[a]] < ss[idx[c]] })
			b.WriteString(rv.Type().String() + "{")
			for n, i := range idx {
				if n > 0 {
					b.WriteString(",")
				}
				b.WriteString(strconv.Quote(ss[i]) + ":")
				renderInto(b, rv.MapIndex(ks[i]).Interface(), depth+1)
			}
			b.WriteString("}")
		case reflect.Ptr:
			if rv.IsNil() {
				b.WriteString("nil(" + rv.Type().String() + ")")
			} else {
				b.WriteString("&")
				renderInto(b, rv.Elem().Interface(), depth+1)
			}
		case reflect.Struct:
			b.WriteString(rv.Type().String() + "{")
			for i := 0; i < rv.NumField(); i++ {
				if !rv.Type().Field(i).IsExported() {
					continue
				}
				b.WriteString(rv.Type().Field(i).Name + ":")
				renderInto(b, rv.Field(i).Interface(), depth+1)
				b.WriteString(";")
			}
			b.WriteString("}")
		default:
			b.WriteString(rv.Type().String() + ":?")
		}
	}
}

// stripAddrs replaces 0x... numbers (addresses in panic texts) by 0x?.
func stripAddrs(s string) string {
	if !strings.Contains(s, "0x") {
		return s
	}
	var b strings.Builder
	for i := 0; i < len(s); i++ {
		if s[i] == '0' && i+1 < len(s) && s[i+1] == 'x' {
			j := i + 2
			for j < len(s) && (s[j] >= '0' && s[j] <= '9' || s[j] >= 'a' && s[j] <= 'f' || s[j] >= 'A' && s[j] <= 'F') {
				j++
			}
			b.WriteString("0x?")
			i = j - 1
			continue
		}
		b.WriteByte(s[i])
	}
	return b.String()
}

func panicText(p interface{}) string {
	switch x := p.(type) {
	case string:
		return x
	case error:
		return x.Error()
	case interface{ String() string }:
		return x.String()
	}
	return "panic of type " + reflect.TypeOf(p).String()
}

// outcome is the canonical (value | error | panic) of one operation.
func outcome(v interface{}, err error) string {
	if err != nil {
		return "E:" + stripAddrs(err.Error())
	}
	return "V:" + render(v)
}

func panicOutcome(p interface{}) string {
	return "P:" + stripAddrs(panicText(p))
}

// ---------------------------------------------------------------- deep dump

// deepHash folds every field (exported or not) reachable from v into a hash;
// pointers are followed once (cycle safe) and never contribute their address.
type dumper struct {
	h      evHash
	seen   map[uintptr]int
	n      int
	skipID bool
}

func deepHash(v interface{}) (uint64, int) {
	d := &dumper{seen: map[uintptr]int{}}
	d.walk(reflect.ValueOf(v), 0)
	return d.h.h, d.n
}

// structHash is deepHash without node identity numbers: two parses of one text
// must be structurally identical, which says nothing about a per-node id a
// parser might hand out from a counter. (Whether evaluation leaves a tree
// unchanged is still decided by the full deepHash.)
func structHash(v interface{}) (uint64, int) {
	d := &dumper{seen: map[uintptr]int{}, skipID: true}
	d.walk(reflect.ValueOf(v), 0)
	return d.h.h, d.n
}

func (d *dumper) walk(v reflect.Value, depth int) {
	d.n++
	if !v.IsValid() {
		d.h.add(0xdead)
		return
	}
	if depth > 400 {
		d.h.add(0xdeeb)
		return
	}
	d.h.add(uint64(v.Kind()))
	switch v.Kind() {
	case reflect.Bool:
		if v.Bool() {
			d.h.add(1)
		} else {
			d.h.add(2)
		}
	case reflect.Int, reflect.Int8, reflect.Int16, reflect.Int32, reflect.Int64:
		d.h.add(uint64(v.Int()))
	case reflect.Uint, reflect.Uint8, reflect.Uint16, reflect.Uint32, reflect.Uint64, reflect.Uintptr:
		d.h.add(v.Uint())
	case reflect.Float32, reflect.Float64:
		d.h.addString(strconv.FormatFloat(v.Float(), 'g', -1, 64))
	case reflect.String:
		d.h.addString(v.String())
	case reflect.Slice:
		if v.IsNil() {
			d.h.add(0x511)
			return
		}
		d.h.add(uint64(v.Len()))
		if v.Type().Elem().Kind() == reflect.Uint8 {
			d.h.addString(string(v.Bytes()))
			return
		}
		for i := 0; i < v.Len(); i++ {
			d.walk(v.Index(i), depth+1)
		}
	case reflect.Array:
		for i := 0; i < v.Len(); i++ {
			d.walk(v.Index(i), depth+1)
		}
	case reflect.Map:
		if v.IsNil() {
			d.h.add(0x3a9)
			return
		}
		// order independent: sum of entry hashes
		var sum uint64
		it := v.MapRange()
		for it.Next() {
			sub := &dumper{seen: d.seen}
			sub.walk(it.Key(), depth+1)
			sub.walk(it.Value(), depth+1)
			sum += sub.h.h
			d.n += sub.n
		}
		d.h.add(sum)
		d.h.add(uint64(v.Len()))
	case reflect.Ptr, reflect.UnsafePointer:
		if v.Kind() == reflect.Ptr && v.IsNil() {
			d.h.add(0x9711)
			return
		}
		p := v.Pointer()
		if id, ok := d.seen[p]; ok {
			d.h.add(0xbac0 + uint64(id))
			return
		}
		d.seen[p] = len(d.seen)
		if v.Kind() == reflect.Ptr {
			d.walk(v.Elem(), depth+1)
		}
	case reflect.Interface:
		if v.IsNil() {
			d.h.add(0x1f1)
			return
		}
		d.h.addString(v.Elem().Type().String())
		d.walk(v.Elem(), depth+1)
	case reflect.Struct:
		d.h.addString(v.Type().String())
		for i := 0; i < v.NumField(); i++ {
			if d.skipID && v.Type().Field(i).Name == "id" && v.Type().Field(i).Type.Kind() == reflect.Int {
				continue
			}
			d.walk(v.Field(i), depth+1)
		}
	case reflect.Func:
		if v.IsNil() {
			d.h.add(0xf0)
		} else {
			d.h.add(0xf1)
		}
	case reflect.Chan:
		d.h.add(0xc4)
	}
}
