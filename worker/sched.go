package main

import (
	"os"
	"runtime"
	"strconv"
	"sync"
	_ "unsafe" // go:linkname
)

// poolCleanup is sync's pool cleaner, the function the garbage collector calls
// at the start of every cycle. Calling it twice empties every sync.Pool
// (primary and victim cache) - exactly the effect of two garbage collections,
// which may legally happen between any two statements of the code under test.
//
// The scheduler does this at every hand-over of the token: otherwise pooled
// objects travelling from one task to the next (fmt's printers, decimal's and
// regexp's scratch values) create happens-before edges between tasks that hide
// almost every data race from the detector (measured: a planted shared scratch
// number was reported in 1.5% of racy runs without the flush).
// Safe here: only the token holder executes code outside the spin loop, so no
// pool operation is ever in progress when it runs.
//
//go:linkname poolCleanup sync.poolCleanup
func poolCleanup()

var poolFlushes int64

// flushAtHandover is decided per run (2 in 3 runs): with it the race detector
// sees almost every unordered access pair; without it objects really travel
// through the pools from task to task, which is where a defect in the use of a
// pool itself (double release, stale contents) becomes visible.
var flushAtHandover = true

//go:norace
func flushPools() {
	if !flushAtHandover {
		return
	}
	poolCleanup()
	poolCleanup()
	poolFlushes++
}

// Token scheduler: tasks are real goroutines, exactly one of them holds the
// token and runs; at every instrumented statement the holder asks the choice
// tape whether to hand the token to somebody else.
//
// All scheduler state is plain memory touched only from //go:norace functions:
// a scheduler built from channels, mutexes or atomics would insert
// happens-before edges between tasks at every hand-over and hide every data
// race of the code under test from the race detector.

const maxTasks = 512

const (
	stSerial = iota // never pre-empt; on task end the tape picks the next task
	stRand          // switch after a geometric number of yields
	stRR            // switch every q yields, round robin
	stPCT           // random priorities, d priority change points
	stHot           // like stRand but only "hot" sites count
	stKinds
)

var strategyNames = [...]string{"serial", "rand", "rr", "pct", "hot"}

type Strategy struct {
	Kind    int
	MeanGap uint64 // stRand / stHot
	Quantum int64  // stRR
	Depth   int    // stPCT
	Horizon int64  // stPCT: change points are drawn in [1,Horizon]
}

type Sched struct {
	n        int
	token    int // task that may run; -1: controller
	done     [maxTasks]bool
	steps    int64
	switches int64
	count    int64
	nextAt   int64
	strat    Strategy
	st       *Stream
	maxSteps int64
	capped   bool
	deadlock bool
	trace    evHash
	lastSite [maxTasks]int
	prio     [maxTasks]int
	lowPrio  int
	changeAt [8]int64
	changeK  int
	active   bool
	ambient  bool // the implicit one-task scheduler around everything that runs outside Run()
	children sync.WaitGroup
	spawned  int
	n0       int               // tasks the scheduler started with; slots above are goroutines of the code under test
	swLog    [192][4]int64     // the first context switches: step, from, site, to (for the replay file)
	swN      int
	waiting  [maxTasks]bool    // inside a cooperative wait (lock, channel, WaitGroup): poll again later
	streak   [maxTasks]int64   // consecutive polls without a step of its own
	draining bool              // the run is over: goroutines the code under test left behind are being run out
	leaked   int
}

// abandoned is panicked through a goroutine of the code under test that can never proceed
// (it waits for a channel / lock nobody will touch again) once everything else is finished:
// in a real process it would simply stay parked for ever - a leak, not a failure.
type abandoned struct{}

// global (per worker process) reach counters; norace
var (
	hotSite     []bool
	siteHits    []uint32
	pairTable   [1 << 18]uint32
	pairCount   int
	curSched    *Sched
	totalSteps  int64
	inTaskSteps int64
)

//go:norace
func recordPair(from, to int) {
	key := uint32(from)*8192 + uint32(to) + 1
	h := (key * 2654435761) >> 14
	for i := 0; i < len(pairTable); i++ {
		j := (int(h) + i) & (len(pairTable) - 1)
		if pairTable[j] == key {
			return
		}
		if pairTable[j] == 0 {
			pairTable[j] = key
			pairCount++
			return
		}
	}
}

// yHook is installed as simhook.YHook for the whole life of the worker.
//
//go:norace
func yHook(site int) {
	totalSteps++
	if site >= 0 && site < len(siteHits) {
		siteHits[site]++
	}
	s := curSched
	if s == nil || !s.active || s.token < 0 {
		return
	}
	s.yield(site)
}

//go:norace
func blockHook() {
	s := curSched
	if s == nil || !s.active || s.token < 0 {
		panic("simulated deadlock: lock held while no scheduler is active")
	}
	s.block()
}

// ---- goroutines started by the code under test become tasks of the current scheduler

//go:norace
func (s *Sched) addTask() int {
	if s.n0 == 0 {
		s.n0 = s.n
	}
	id := -1
	for i := s.n0; i < s.n; i++ {
		if s.done[i] {
			id = i
			break
		}
	}
	if id < 0 {
		if s.n >= maxTasks {
			return -1
		}
		id = s.n
		s.n++
	}
	s.done[id] = false
	s.waiting[id], s.streak[id] = false, 0
	s.prio[id] = 1000 + int(s.st.Draw(1000))
	s.lastSite[id] = 0
	s.spawned++
	return id
}

var spawnedTotal int64

// unsupportedExit: the run cannot be decided by this simulator. Exit 2 (machinery), never a verdict.
func unsupportedExit(why string) {
	os.Stderr.WriteString("MACHINERY: construct not under simulator control: " + why + "\n")
	os.Exit(2)
}

var childPanics []string

//go:norace
func noteChildPanic(p interface{}) { childPanics = append(childPanics, stripAddrs(panicText(p))) }

//go:norace
func goHook(run func()) {
	s := curSched
	if s == nil || !s.active || s.token < 0 {
		panic("goroutine started by the code under test while no scheduler is active")
	}
	id := s.addTask()
	if id < 0 {
		unsupportedExit("the code under test has more than 512 goroutines alive at once")
	}
	spawnedTotal++
	s.children.Add(1)
	go func() {
		defer s.children.Done()
		s.waitTurn(id)
		defer s.finish(id)
		defer func() {
			// a panic in a goroutine the library started would kill the whole process
			if p := recover(); p != nil {
				if _, leak := p.(abandoned); !leak {
					noteChildPanic(p)
				}
			}
		}()
		run()
	}()
}

// newAmbient: task 0 is the calling (main) goroutine, which holds the token; used
// around every run so that code which starts goroutines or blocks outside an
// explicit Run() is still under the simulator's control.
func newAmbient(st *Stream) *Sched {
	s := &Sched{n: 1, n0: 1, token: 0, strat: Strategy{Kind: stSerial}, st: st, maxSteps: 1 << 40, active: true, ambient: true}
	return s
}

// drain lets every goroutine the code under test left behind run to completion.
//
// initialDone: every task the scheduler started with has finished (for the ambient
// scheduler: the main goroutine is only draining).
//
//go:norace
func (s *Sched) initialDone() bool {
	if s.ambient {
		return s.draining
	}
	for i := 0; i < s.n0 && i < s.n; i++ {
		if !s.done[i] {
			return false
		}
	}
	return true
}

//go:norace
func (s *Sched) pending() bool {
	for i := 1; i < s.n; i++ {
		if !s.done[i] {
			return true
		}
	}
	return false
}

func (s *Sched) drain() {
	if !s.ambient {
		return
	}
	s.draining = true
	defer func() { s.draining = false }()
	for guard := 0; s.pending() && guard < 1<<20; guard++ {
		s.handTo(0, s.pickOther(0), s.lastSite[0])
	}
	s.children.Wait()
}

func NewSched(n int, strat Strategy, st *Stream, maxSteps int64) *Sched {
	s := &Sched{n: n, n0: n, token: -1, strat: strat, st: st, maxSteps: maxSteps}
	return s
}

//go:norace
func (s *Sched) runnableCount() int {
	c := 0
	for i := 0; i < s.n; i++ {
		if !s.done[i] {
			c++
		}
	}
	return c
}

// pickOther draws a runnable task different from me (me may be done).
//
//go:norace
func (s *Sched) pickOther(me int) int {
	// tasks polling in a cooperative wait are chosen only when nobody else can run
	c := 0
	for i := 0; i < s.n; i++ {
		if !s.done[i] && i != me && !s.waiting[i] {
			c++
		}
	}
	useWaiting := false
	if c == 0 {
		useWaiting = true
		for i := 0; i < s.n; i++ {
			if !s.done[i] && i != me {
				c++
			}
		}
	}
	if c == 0 {
		return -1
	}
	ok := func(i int) bool { return !s.done[i] && i != me && (useWaiting || !s.waiting[i]) }
	if s.strat.Kind == stPCT && !useWaiting { // among polling tasks choose at random: priorities would starve all but two of them
		best := -1
		for i := 0; i < s.n; i++ {
			if ok(i) && (best < 0 || s.prio[i] > s.prio[best]) {
				best = i
			}
		}
		return best
	}
	k := int(s.st.Draw(uint64(c)))
	for i := 0; i < s.n; i++ {
		if ok(i) {
			if k == 0 {
				return i
			}
			k--
		}
	}
	return -1
}

//go:norace
func (s *Sched) handTo(me, next, site int) {
	if next == me || next < 0 {
		return
	}
	s.switches++
	if s.swN < len(s.swLog) {
		s.swLog[s.swN] = [4]int64{s.steps, int64(me), int64(site), int64(next)}
		s.swN++
	}
	s.trace.add(uint64(me)<<40 | uint64(site+1)<<16 | uint64(next))
	recordPair(s.lastSite[me], s.lastSite[next])
	flushPools()
	s.token = next
	for s.token != me {
		runtime.Gosched()
	}
}

//go:norace
func (s *Sched) yield(site int) {
	s.steps++
	inTaskSteps++
	me := s.token
	s.lastSite[me] = site
	s.streak[me] = 0
	if s.capped {
		return
	}
	if s.steps > s.maxSteps {
		s.capped = true
		return
	}
	switch s.strat.Kind {
	case stSerial:
		return
	case stRand, stHot:
		if s.strat.Kind == stHot && !(site < len(hotSite) && hotSite[site]) {
			return
		}
		if s.nextAt <= 0 {
			return
		}
		s.count++
		if s.count >= s.nextAt {
			s.count = 0
			s.nextAt = int64(s.st.Geometric(s.strat.MeanGap, 1<<20))
			s.handTo(me, s.pickOther(me), site)
		}
	case stRR:
		s.count++
		if s.count >= s.strat.Quantum {
			s.count = 0
			next := -1
			for d := 1; d < s.n; d++ {
				j := (me + d) % s.n
				if !s.done[j] && !s.waiting[j] {
					next = j
					break
				}
			}
			s.handTo(me, next, site)
		}
	case stPCT:
		if s.changeK < s.strat.Depth && s.steps >= s.changeAt[s.changeK] {
			s.changeK++
			s.lowPrio--
			s.prio[me] = s.lowPrio
		}
		best := me
		for i := 0; i < s.n; i++ {
			if !s.done[i] && !s.waiting[i] && s.prio[i] > s.prio[best] {
				best = i
			}
		}
		s.handTo(me, best, site)
	}
}

// block: the holder cannot proceed (cooperative lock busy); somebody else must run.
//
//go:norace
func (s *Sched) block() {
	me := s.token
	s.steps++
	s.streak[me]++
	if me >= s.n0 && s.n0 > 0 && s.initialDone() && (s.streak[me] > 2000 || s.runnableCount() == 1) {
		s.leaked++
		panic(abandoned{})
	}
	if s.streak[me] > 200000 {
		// nobody ever made the condition true: a deadlock of the code under test, or a
		// blocking rendezvous on an unbuffered channel, which cooperative polling cannot complete
		s.deadlock = true
		unsupportedExit("a task polled a lock / channel / WaitGroup 200000 times without it ever becoming ready (deadlock, or a rendezvous on an unbuffered channel, which the cooperative scheduler does not support)")
	}
	s.waiting[me] = true
	next := s.pickOther(me)
	if next < 0 {
		s.deadlock = true
		unsupportedExit("the only runnable task waits for a lock / channel / WaitGroup that nobody can release")
	}
	s.handTo(me, next, s.lastSite[me])
	s.waiting[me] = false
}

//go:norace
func (s *Sched) waitTurn(me int) {
	for s.token != me {
		runtime.Gosched()
	}
}

//go:norace
func (s *Sched) finish(me int) {
	s.done[me] = true
	next := s.pickOther(me)
	s.trace.add(uint64(me)<<40 | 0xffff<<16 | uint64(next+1))
	flushPools()
	s.token = next // -1 hands back to the controller
}

//go:norace
func (s *Sched) start() int {
	// initial parameters drawn by the controller before any task runs
	switch s.strat.Kind {
	case stRand, stHot:
		s.nextAt = int64(s.st.Geometric(s.strat.MeanGap, 1<<20))
	case stPCT:
		for i := 0; i < s.n; i++ {
			s.prio[i] = int(s.st.Draw(1000)) + 1000
		}
		for k := 0; k < s.strat.Depth && k < len(s.changeAt); k++ {
			s.changeAt[k] = 1 + int64(s.st.Draw(uint64(s.strat.Horizon)))
		}
		// sort the few change points
		for a := 0; a < s.strat.Depth; a++ {
			for b := a + 1; b < s.strat.Depth; b++ {
				if s.changeAt[b] < s.changeAt[a] {
					s.changeAt[a], s.changeAt[b] = s.changeAt[b], s.changeAt[a]
				}
			}
		}
		s.lowPrio = 0
	}
	first := s.pickOther(-1)
	return first
}

//go:norace
func (s *Sched) controllerWait(first int) {
	s.active = true
	s.token = first
	for s.token != -1 {
		runtime.Gosched()
	}
	s.active = false
}

// Run executes the task bodies under the scheduler and returns when all are done.
func (s *Sched) Run(tasks []func()) {
	if len(tasks) != s.n {
		panic("task count mismatch")
	}
	prev := curSched
	if prev != nil {
		prev.drain()
	}
	curSched = s
	var wg sync.WaitGroup
	for i := range tasks {
		wg.Add(1)
		i := i
		go func() {
			defer wg.Done()
			s.waitTurn(i)
			defer s.finish(i)
			tasks[i]()
		}()
	}
	first := s.start()
	s.controllerWait(first)
	wg.Wait() // the only real synchronisation, after the last task has finished
	s.children.Wait()
	curSched = prev
}

func drawStrategy(pl *Stream, tier string, allowSerial bool) Strategy {
	flushAtHandover = pl.Intn(3) != 0
	k := pl.Intn(stKinds)
	if k == stSerial && !allowSerial {
		k = stRand
	}
	st := Strategy{Kind: k}
	switch k {
	case stRand:
		st.MeanGap = []uint64{2, 8, 32, 128, 512}[pl.Intn(5)]
	case stHot:
		st.MeanGap = []uint64{1, 2, 4, 16}[pl.Intn(4)]
	case stRR:
		st.Quantum = []int64{1, 2, 3, 7, 50, 400}[pl.Intn(6)]
	case stPCT:
		st.Depth = 1 + pl.Intn(3)
		st.Horizon = []int64{50, 500, 5000, 50000}[pl.Intn(4)]
	}
	return st
}

// siteNames maps a yield site to "file:line" of the original source.
var siteNames []string

// scheduleTrace renders the first context switches of a run for the replay file.
func (s *Sched) scheduleTrace() []string {
	var out []string
	for i := 0; i < s.swN; i++ {
		e := s.swLog[i]
		at := "?"
		if int(e[2]) >= 0 && int(e[2]) < len(siteNames) {
			at = siteNames[e[2]]
		}
		out = append(out, "step "+strconv.FormatInt(e[0], 10)+": task "+strconv.FormatInt(e[1], 10)+" at "+at+" -> task "+strconv.FormatInt(e[3], 10))
	}
	if int64(s.swN) < s.switches {
		out = append(out, "... "+strconv.FormatInt(s.switches-int64(s.swN), 10)+" more")
	}
	return out
}
