package main

import (
	"context"
	"math"
	"math/big"
	"reflect"
	"sort"
	"strconv"
	"strings"
	"time"

	"github.com/ericlagergren/decimal"
)

// bridgeModel: a declarative, three-valued contract for calls of host functions,
// written from the statement of C11 only. For every evaluated call it says
// MUST_CALL (with the exact converted arguments), MUST_ERROR_NOT_CALLED, or
// UNSPECIFIED (then only "at most once" is checked and strict checking of the
// rest of that evaluation stops).

// ---------------------------------------------------------------- values

type bKind int

const (
	bNull bKind = iota
	bBool
	bNum
	bStr
	bArr
	bTime
	bMap
	bCtx     // the value of the `ctx` keyword: the context the evaluation runs under
	bUnknown // a value the model does not want to reason about
)

var bKindNames = [...]string{"null", "bool", "number", "string", "array", "time", "map", "context", "unknown"}

type BV struct {
	K bKind
	N *big.Rat
	S string
	B bool
	A []BV
	T time.Time
	M map[string]BV
	// numbers that came through a float32 are only known approximately
	Approx bool
	// the number is the negative zero of a Go float: conversions keep the sign
	NegZero bool
}

func bvNum(r *big.Rat) BV { return BV{K: bNum, N: r} }
func bvInt(i int64) BV    { return BV{K: bNum, N: new(big.Rat).SetInt64(i)} }
func bvStr(s string) BV   { return BV{K: bStr, S: s} }
func bvBool(b bool) BV    { return BV{K: bBool, B: b} }
func bvNull() BV          { return BV{K: bNull} }

func (v BV) String() string {
	switch v.K {
	case bNull:
		return "null"
	case bBool:
		return strconv.FormatBool(v.B)
	case bNum:
		if v.N.IsInt() {
			return v.N.Num().String()
		}
		return v.N.FloatString(12)
	case bStr:
		return strconv.Quote(v.S)
	case bArr:
		var p []string
		for _, e := range v.A {
			p = append(p, e.String())
		}
		return "[" + strings.Join(p, ",") + "]"
	case bTime:
		return "time(" + v.T.Format(time.RFC3339Nano) + ")"
	case bCtx:
		return "ctx"
	case bMap:
		keys := make([]string, 0, len(v.M))
		for k := range v.M {
			keys = append(keys, k)
		}
		sort.Strings(keys)
		var p []string
		for _, k := range keys {
			p = append(p, k+":"+v.M[k].String())
		}
		return "{" + strings.Join(p, ",") + "}"
	}
	return "<unknown>"
}

func ratFromDecimal(d *decimal.Big) (*big.Rat, bool) {
	if d == nil || !d.IsFinite() {
		return nil, false
	}
	r, ok := new(big.Rat).SetString(d.String())
	return r, ok
}

// ---------------------------------------------------------------- parameter kinds

type pKind int

const (
	pString pKind = iota
	pBool
	pInt
	pInt8
	pInt16
	pInt32
	pInt64
	pFloat32
	pFloat64
	pIface
	pDec
	pTime
	pSlice // Elem
	pMap   // string-keyed, Elem
)

type pType struct {
	K    pKind
	Elem *pType
}

func (p pType) String() string {
	switch p.K {
	case pString:
		return "string"
	case pBool:
		return "bool"
	case pInt:
		return "int"
	case pInt8:
		return "int8"
	case pInt16:
		return "int16"
	case pInt32:
		return "int32"
	case pInt64:
		return "int64"
	case pFloat32:
		return "float32"
	case pFloat64:
		return "float64"
	case pIface:
		return "interface{}"
	case pDec:
		return "*decimal.Big"
	case pTime:
		return "time.Time"
	case pSlice:
		return "[]" + p.Elem.String()
	case pMap:
		return "map[string]" + p.Elem.String()
	}
	return "?"
}

var (
	rtCtx   = reflect.TypeOf((*context.Context)(nil)).Elem()
	rtErr   = reflect.TypeOf((*error)(nil)).Elem()
	rtIface = reflect.TypeOf((*interface{})(nil)).Elem()
	rtDec   = reflect.TypeOf((*decimal.Big)(nil))
	rtTime  = reflect.TypeOf(time.Time{})
)

func (p pType) rtype() reflect.Type {
	switch p.K {
	case pString:
		return reflect.TypeOf("")
	case pBool:
		return reflect.TypeOf(true)
	case pInt:
		return reflect.TypeOf(int(0))
	case pInt8:
		return reflect.TypeOf(int8(0))
	case pInt16:
		return reflect.TypeOf(int16(0))
	case pInt32:
		return reflect.TypeOf(int32(0))
	case pInt64:
		return reflect.TypeOf(int64(0))
	case pFloat32:
		return reflect.TypeOf(float32(0))
	case pFloat64:
		return reflect.TypeOf(float64(0))
	case pIface:
		return rtIface
	case pDec:
		return rtDec
	case pTime:
		return rtTime
	case pSlice:
		return reflect.SliceOf(p.Elem.rtype())
	case pMap:
		return reflect.MapOf(reflect.TypeOf(""), p.Elem.rtype())
	}
	return rtIface
}

func intRange(k pKind) (lo, hi *big.Int) {
	switch k {
	case pInt8:
		return big.NewInt(math.MinInt8), big.NewInt(math.MaxInt8)
	case pInt16:
		return big.NewInt(math.MinInt16), big.NewInt(math.MaxInt16)
	case pInt32:
		return big.NewInt(math.MinInt32), big.NewInt(math.MaxInt32)
	}
	return big.NewInt(math.MinInt64), big.NewInt(math.MaxInt64)
}

// ---------------------------------------------------------------- conversion contract

type verdict int

const (
	vCall   verdict = iota // convertible: expect exactly this
	vError                 // cannot be converted: function not called, evaluation fails with an error
	vUnspec                // the statement does not say
)

// expectation for one converted argument
type argExp struct {
	P      pType
	V      BV
	Cell   string // "<param kind> <- <arg kind>" for coverage accounting
	Approx bool
}

func truncToward0(r *big.Rat) *big.Int {
	q := new(big.Int).Quo(r.Num(), r.Denom()) // big.Int.Quo truncates toward zero
	return q
}

func looksNumeric(s string) bool {
	_, ok := new(big.Rat).SetString(strings.TrimSpace(s))
	return ok
}

// convert says what the statement demands for passing v to a parameter of type p.
func convert(v BV, p pType) (verdict, string) {
	cell := p.String() + " <- " + bKindNames[v.K]
	if v.K == bUnknown {
		return vUnspec, cell
	}
	switch p.K {
	case pIface:
		return vCall, cell // as is; null becomes nil
	case pString:
		switch v.K {
		case bNum, bStr, bBool:
			return vCall, cell // by formatting
		case bArr, bMap, bTime:
			return vCall, cell // by formatting: the exact text is not specified, that there is one is
		}
		return vUnspec, cell // text of null is not specified
	case pBool:
		switch v.K {
		case bBool:
			return vCall, cell
		case bNum, bStr, bArr, bTime, bMap:
			return vError, cell
		}
		return vUnspec, cell
	case pInt, pInt8, pInt16, pInt32, pInt64:
		switch v.K {
		case bNum:
			if v.Approx {
				return vUnspec, cell + " (approximate)"
			}
			t := truncToward0(v.N)
			lo, hi := intRange(p.K)
			if t.Cmp(lo) < 0 || t.Cmp(hi) > 0 {
				return vUnspec, cell + " (out of range)"
			}
			return vCall, cell
		case bStr:
			if looksNumeric(v.S) {
				return vUnspec, cell + " (numeric text)"
			}
			return vError, cell
		case bBool, bArr, bTime, bMap:
			return vError, cell
		}
		return vUnspec, cell
	case pFloat32, pFloat64:
		switch v.K {
		case bNum:
			return vCall, cell
		case bStr:
			if looksNumeric(v.S) {
				return vUnspec, cell + " (numeric text)"
			}
			return vError, cell
		case bBool, bArr, bTime, bMap:
			return vError, cell
		}
		return vUnspec, cell
	case pDec:
		switch v.K {
		case bNum:
			return vCall, cell
		case bStr:
			if looksNumeric(v.S) {
				return vUnspec, cell + " (numeric text)"
			}
			return vError, cell
		case bBool, bArr, bTime, bMap:
			return vError, cell
		}
		return vUnspec, cell
	case pTime:
		switch v.K {
		case bTime:
			return vCall, cell
		case bNum, bStr, bBool, bArr, bMap:
			return vError, cell
		}
		return vUnspec, cell
	case pSlice:
		switch v.K {
		case bArr:
			res := vCall
			for _, e := range v.A {
				ev, _ := convert(e, *p.Elem)
				if ev == vUnspec {
					return vUnspec, cell + " (element unspecified)"
				}
				if ev == vError {
					res = vError
				}
			}
			return res, cell
		case bNum, bStr, bBool, bTime, bMap:
			return vError, cell
		}
		return vUnspec, cell
	case pMap:
		switch v.K {
		case bMap:
			res := vCall
			for _, e := range v.M {
				ev, _ := convert(e, *p.Elem)
				if ev == vUnspec {
					return vUnspec, cell + " (element unspecified)"
				}
				if ev == vError {
					res = vError
				}
			}
			return res, cell
		case bNum, bStr, bBool, bTime, bArr:
			return vError, cell
		}
		return vUnspec, cell
	}
	return vUnspec, cell
}

// checkArg compares what the host function received with what the contract
// demands for (v -> p). Returns "" when it fits.
func checkArg(got interface{}, v BV, p pType) string {
	bad := func(why string) string {
		return "parameter " + p.String() + " for argument " + v.String() + ": received " + render(got) + " (" + why + ")"
	}
	switch p.K {
	case pIface:
		if !matchesB(v, got) {
			return bad("not the argument as is")
		}
	case pString:
		s, ok := got.(string)
		if !ok {
			return bad("not a string")
		}
		switch v.K {
		case bStr:
			if s != v.S {
				return bad("string changed")
			}
		case bBool:
			if s != strconv.FormatBool(v.B) {
				return bad("boolean not formatted as true/false")
			}
		case bNum:
			r, ok := new(big.Rat).SetString(s)
			if !ok {
				d, ok2 := new(decimal.Big).SetString(s)
				if ok2 {
					r, ok = ratFromDecimal(d)
				}
			}
			if !ok || (!v.Approx && r.Cmp(v.N) != 0) {
				return bad("rendering does not parse back to the same number")
			}
		case bArr, bMap, bTime:
			// whatever the layout, a formatted array, map or time is not the empty text,
			// and the texts and truth values in it appear in it
			if s == "" {
				return bad("formatted as the empty text")
			}
			for _, e := range v.A {
				if e.K == bStr && !strings.Contains(s, e.S) {
					return bad("element " + strconv.Quote(e.S) + " does not appear in the text")
				}
				if e.K == bBool && !strings.Contains(s, strconv.FormatBool(e.B)) {
					return bad("element " + strconv.FormatBool(e.B) + " does not appear in the text")
				}
			}
			for k := range v.M {
				if !strings.Contains(s, k) {
					return bad("key " + strconv.Quote(k) + " does not appear in the text")
				}
			}
		}
	case pBool:
		b, ok := got.(bool)
		if !ok || b != v.B {
			return bad("boolean changed")
		}
	case pInt, pInt8, pInt16, pInt32, pInt64:
		rv := reflect.ValueOf(got)
		if !rv.IsValid() || rv.Type() != p.rtype() {
			return bad("wrong Go type")
		}
		if want := truncToward0(v.N); !want.IsInt64() || rv.Int() != want.Int64() {
			return bad("not the number truncated toward zero, which is " + want.String())
		}
	case pFloat64:
		f, ok := got.(float64)
		want, _ := v.N.Float64()
		if !ok || (f != want && !v.Approx) {
			return bad("not the nearest float64, which is " + strconv.FormatFloat(want, 'g', -1, 64))
		}
		if f == 0 && v.N.Sign() == 0 && math.Signbit(f) != v.NegZero {
			return bad("sign of zero changed")
		}
	case pFloat32:
		f, ok := got.(float32)
		want, _ := v.N.Float32()
		w64, _ := v.N.Float64()
		if !ok || (f != want && f != float32(w64) && !v.Approx) {
			return bad("not the nearest float32, which is " + strconv.FormatFloat(float64(want), 'g', -1, 32))
		}
	case pDec:
		d, ok := got.(*decimal.Big)
		if !ok || d == nil {
			return bad("not a number")
		}
		r, ok := ratFromDecimal(d)
		if !ok || (r.Cmp(v.N) != 0 && !v.Approx) {
			return bad("number changed")
		}
		if v.N.Sign() == 0 && d.Signbit() != v.NegZero {
			return bad("sign of zero changed")
		}
	case pTime:
		t, ok := got.(time.Time)
		if !ok || !t.Equal(v.T) || t.Location().String() != v.T.Location().String() {
			return bad("time changed")
		}
	case pSlice:
		rv := reflect.ValueOf(got)
		if !rv.IsValid() || rv.Type() != p.rtype() {
			return bad("wrong Go type")
		}
		if rv.Len() != len(v.A) {
			return bad("length " + strconv.Itoa(rv.Len()) + ", want " + strconv.Itoa(len(v.A)))
		}
		for i := range v.A {
			if why := checkArg(rv.Index(i).Interface(), v.A[i], *p.Elem); why != "" {
				return "element " + strconv.Itoa(i) + ": " + why
			}
		}
	case pMap:
		rv := reflect.ValueOf(got)
		if !rv.IsValid() || rv.Type() != p.rtype() {
			return bad("wrong Go type")
		}
		if rv.Len() != len(v.M) {
			return bad("size " + strconv.Itoa(rv.Len()) + ", want " + strconv.Itoa(len(v.M)))
		}
		for k, e := range v.M {
			ev := rv.MapIndex(reflect.ValueOf(k))
			if !ev.IsValid() {
				return bad("key " + k + " missing")
			}
			if why := checkArg(ev.Interface(), e, *p.Elem); why != "" {
				return "entry " + k + ": " + why
			}
		}
	}
	return ""
}

// matchesB: does an implementation value equal a model value (as is)?
func matchesB(v BV, got interface{}) bool {
	switch v.K {
	case bUnknown: // a cell the statement leaves open (what `typeof` yields): not judged
		return true
	case bNull:
		return got == nil
	case bCtx:
		c, ok := got.(context.Context)
		return ok && c != nil && c.Value(ctxKeyT{}) != nil // the caller's context carries the run's token
	case bBool:
		b, ok := got.(bool)
		return ok && b == v.B
	case bStr:
		s, ok := got.(string)
		return ok && s == v.S
	case bNum:
		var r *big.Rat
		switch x := got.(type) {
		case *decimal.Big:
			rr, ok := ratFromDecimal(x)
			if !ok {
				return false
			}
			if rr.Sign() == 0 && v.N.Sign() == 0 && x.Signbit() != v.NegZero {
				return false
			}
			r = rr
		case float64:
			r = new(big.Rat)
			if r.SetFloat64(x) == nil {
				return false
			}
			if v.Approx {
				break
			}
			want, _ := v.N.Float64()
			return x == want
		default:
			return false
		}
		if v.Approx {
			d := new(big.Rat).Sub(r, v.N)
			d.Abs(d)
			tol := new(big.Rat).Abs(v.N)
			tol.Mul(tol, big.NewRat(1, 1000000))
			tol.Add(tol, big.NewRat(1, 1000000000))
			return d.Cmp(tol) <= 0
		}
		return r.Cmp(v.N) == 0
	case bArr:
		a, ok := got.([]interface{})
		if !ok || len(a) != len(v.A) {
			return false
		}
		for i := range a {
			if !matchesB(v.A[i], a[i]) {
				return false
			}
		}
		return true
	case bTime:
		t, ok := got.(time.Time)
		return ok && t.Equal(v.T) && t.Location().String() == v.T.Location().String()
	case bMap:
		m, ok := got.(map[string]interface{})
		if !ok {
			return false
		}
		n := 0
		for k, e := range m {
			if isFunc(e) {
				continue
			}
			n++
			w, ok := v.M[k]
			if !ok || !matchesB(w, e) {
				return false
			}
		}
		return n == len(v.M)
	}
	return false
}
