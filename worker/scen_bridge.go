package main

import (
	"io"
	"context"
	"errors"
	"math"
	"math/big"
	"reflect"
	"strconv"
	"strings"
	"time"

	"github.com/aundis/formula"
	"github.com/ericlagergren/decimal"
)

// Scenario `bridge` (C11): host functions with generated signatures are
// synthesised reflectively, record every invocation (arguments, context
// identity) and return values or errors as the fault plan says; formulas call
// them with argument lists of every length and kind, with and without spread,
// nested in arguments, arrays and conditional branches. The recorded invocation
// log and the evaluation outcome are compared with bridgeModel.

func init() { scenarios["bridge"] = runBridge }

type ctxKeyT struct{}

type rKind int

const (
	rInt rKind = iota
	rInt32
	rInt64
	rFloat32
	rFloat64
	rString
	rBool
	rIface
	rDec
	rKinds
)

var rKindNames = [...]string{"int", "int32", "int64", "float32", "float64", "string", "bool", "interface{}", "*decimal.Big"}

type bFunc struct {
	Name     string
	Ctx      bool
	Params   []pType // the variadic tail is Params[last] with K == pSlice
	Variadic bool
	Ret      rKind
	RetSeed  int
	Fail     bool // always returns an error
	// builtins of the library, called through the same bridge; they cannot record,
	// so only their arity / conversion verdict and their result are checked
	Builtin bool
	Ref     func(args []BV) (BV, int)
	// Reenter: func(ctx, x interface{}) (interface{}, error) that evaluates another,
	// failing, formula on the same runner with a derived context, swallows the
	// error and returns x
	Reenter bool
	// Via: the function sits in the nested data map `ns` under this key and is called as ns.<Via>(...)
	Via string
	// ViaS: the function sits in this field of the struct `inv` in the data and is called as inv.<ViaS>(...)
	ViaS string
}

// BInvoice is a record as hosts hand them over: its own Format field stands before an embedded
// struct that has a Format field too (Go's rule: the shallower field is the one `inv.Format` names),
// Len and Upper are promoted from the embedded struct.
type BAudit struct {
	Format interface{}
	Len    interface{}
	Upper  interface{}
}

type BInvoice struct {
	Format interface{}
	Total  int
	BAudit
}

func (f *bFunc) sig() string {
	if f.Builtin {
		return "builtin " + f.Name
	}
	var p []string
	if f.Ctx {
		p = append(p, "ctx")
	}
	for i, q := range f.Params {
		if f.Variadic && i == len(f.Params)-1 {
			p = append(p, "..."+q.Elem.String())
		} else {
			p = append(p, q.String())
		}
	}
	return f.Name + "(" + strings.Join(p, ", ") + ") (" + rKindNames[f.Ret] + ", error)"
}

type bCall struct {
	fn    string
	args  []interface{}
	ctxOK bool
}

type innerKeyT struct{}

type bWorld struct {
	ctx    context.Context
	runner *formula.Runner
	funcs  map[string]*bFunc
	log    []bCall
	n      int
	failAt int
	fired  int
	token  *int
}

func (f *bFunc) retType() reflect.Type {
	switch f.Ret {
	case rInt:
		return reflect.TypeOf(int(0))
	case rInt32:
		return reflect.TypeOf(int32(0))
	case rInt64:
		return reflect.TypeOf(int64(0))
	case rFloat32:
		return reflect.TypeOf(float32(0))
	case rFloat64:
		return reflect.TypeOf(float64(0))
	case rString:
		return reflect.TypeOf("")
	case rBool:
		return reflect.TypeOf(true)
	case rDec:
		return rtDec
	}
	return rtIface
}

// retValue: what the k-th invocation returns, as Go value and as model value.
func (f *bFunc) retValue(k int) (reflect.Value, BV) {
	s := f.RetSeed + 7*k
	switch f.Ret {
	case rInt:
		v := []int{7, -3, 0, 123456, 1 << 40}[s%5]
		return reflect.ValueOf(v), bvInt(int64(v))
	case rInt32:
		v := []int32{5, -2147483648, 2147483647, 0}[s%4]
		return reflect.ValueOf(v), bvInt(int64(v))
	case rInt64:
		v := []int64{9, -1 << 50, 1<<53 - 1, 0}[s%4]
		return reflect.ValueOf(v), bvInt(v)
	case rFloat32:
		v := []float32{0.5, 0.1, -2.25, 3}[s%4]
		bv := bvNum(new(big.Rat).SetFloat64(float64(v)))
		bv.Approx = true
		return reflect.ValueOf(v), bv
	case rFloat64:
		v := []float64{2.5, 0.1, -1e10, 4, 0, math.Copysign(0, -1)}[s%6]
		r, _ := new(big.Rat).SetString(strconv.FormatFloat(v, 'f', -1, 64))
		bv := bvNum(r)
		bv.NegZero = v == 0 && math.Signbit(v)
		return reflect.ValueOf(v), bv
	case rString:
		v := []string{"r", "", "12", "résumé"}[s%4]
		return reflect.ValueOf(v), bvStr(v)
	case rBool:
		return reflect.ValueOf(s%2 == 0), bvBool(s%2 == 0)
	case rDec:
		d := decimal.WithContext(decimal.Context128).SetMantScale(int64(1000+s), 2)
		r, _ := ratFromDecimal(d)
		return reflect.ValueOf(d), bvNum(r)
	}
	// interface{} holding one of several dynamic types
	rv := reflect.New(rtIface).Elem()
	switch s % 5 {
	case 0:
		return rv, bvNull()
	case 1:
		rv.Set(reflect.ValueOf("dyn"))
		return rv, bvStr("dyn")
	case 2:
		rv.Set(reflect.ValueOf(12))
		return rv, bvInt(12)
	case 3:
		rv.Set(reflect.ValueOf(true))
		return rv, bvBool(true)
	default:
		rv.Set(reflect.ValueOf([]interface{}{"x", "y"}))
		return rv, BV{K: bArr, A: []BV{bvStr("x"), bvStr("y")}}
	}
}

func (w *bWorld) build(f *bFunc) interface{} {
	var ins []reflect.Type
	if f.Ctx {
		ins = append(ins, rtCtx)
	}
	for _, p := range f.Params {
		ins = append(ins, p.rtype())
	}
	ft := reflect.FuncOf(ins, []reflect.Type{f.retType(), rtErr}, f.Variadic)
	calls := 0
	fv := reflect.MakeFunc(ft, func(in []reflect.Value) []reflect.Value {
		rec := bCall{fn: f.Name}
		i := 0
		if f.Ctx {
			if c, ok := in[0].Interface().(context.Context); ok && c != nil {
				rec.ctxOK = c == w.ctx // the caller's context itself, not merely one derived from it
			}
			i = 1
		}
		for ; i < len(in); i++ {
			if in[i].Kind() == reflect.Interface && in[i].IsNil() {
				rec.args = append(rec.args, nil)
			} else {
				rec.args = append(rec.args, in[i].Interface())
			}
		}
		w.log = append(w.log, rec)
		w.n++
		calls++
		zeroErr := reflect.Zero(rtErr)
		if f.Fail || (w.failAt != 0 && w.n == w.failAt) {
			if !f.Fail {
				w.fired++
			}
			herr := hostErrors[(f.RetSeed+calls+1000)%(len(hostErrors)+2)%len(hostErrors)]
			if k := (f.RetSeed + calls + 1000) % (len(hostErrors) + 2); k >= len(hostErrors) {
				// the host hands back, as it is or wrapped, the error of an evaluation it made itself on
				// another runner, in which another host call failed: an error of the library's own making
				if ie := innerCallError(); ie != nil {
					herr = ie
					if k > len(hostErrors) {
						herr = &wrappedErr{"rule", ie}
					}
				}
			}
			return []reflect.Value{reflect.Zero(f.retType()), reflect.ValueOf(herr).Convert(rtErr)}
		}
		if f.Reenter {
			// evaluate a failing formula on the same runner under a derived context, ignore its error
			if src, perr := formula.ParseSourceCode([]byte("abs()")); perr == nil && w.runner != nil {
				w.runner.Resolve(context.WithValue(w.ctx, innerKeyT{}, 1), src.Expression)
			}
			out := reflect.New(rtIface).Elem()
			if !(in[1].Kind() == reflect.Interface && in[1].IsNil()) {
				out.Set(in[1])
			}
			return []reflect.Value{out, zeroErr}
		}
		rv, _ := f.retValue(calls)
		return []reflect.Value{rv, zeroErr}
	})
	return fv.Interface()
}

// innerCallError: what the library returns when a host function called from a formula fails.
func innerCallError() error {
	src, perr := formula.ParseSourceCode([]byte("zzinner(1)"))
	if perr != nil {
		return nil
	}
	r := formula.NewRunner()
	r.SetThis(map[string]interface{}{"zzinner": func(x int) (int, error) { return 0, errors.New("no such key") }})
	_, err := r.Resolve(context.Background(), src.Expression)
	return err
}

// the errors host functions return: which error it is must not matter
type wrappedErr struct {
	msg string
	err error
}

func (e *wrappedErr) Error() string { return e.msg + ": " + e.err.Error() }
func (e *wrappedErr) Unwrap() error { return e.err }

type emptyErr struct{}

func (emptyErr) Error() string { return "" }

var hostErrors = []error{errors.New("host says no"), context.Canceled, context.DeadlineExceeded, io.EOF,
	&wrappedErr{"backend 3", context.Canceled}, &wrappedErr{"read", io.ErrUnexpectedEOF}, emptyErr{}, errors.New("host says no")}

// ---------------------------------------------------------------- generation

func genPType(s *Stream, depth int) pType {
	k := s.Intn(16)
	switch {
	case k < 12:
		return pType{K: pKind(k)}
	case k < 15 && depth < 2:
		e := genPType(s, depth+1)
		return pType{K: pSlice, Elem: &e}
	case depth < 2:
		e := genPType(s, depth+1)
		for e.K == pMap || e.K == pSlice { // keep maps flat
			e = genPType(s, depth+1)
		}
		return pType{K: pMap, Elem: &e}
	}
	return pType{K: pKind(s.Intn(12))}
}

func genBFunc(s *Stream, name string, maxParams int) *bFunc {
	f := &bFunc{Name: name, Ctx: s.Intn(3) == 0, Ret: rKind(s.Intn(int(rKinds))), RetSeed: s.Intn(20), Fail: s.Intn(12) == 0}
	n := s.Intn(maxParams + 1)
	for i := 0; i < n; i++ {
		f.Params = append(f.Params, genPType(s, 0))
	}
	if s.Intn(3) == 0 {
		e := genPType(s, 1)
		for e.K == pMap {
			e = genPType(s, 1)
		}
		f.Params = append(f.Params, pType{K: pSlice, Elem: &e})
		f.Variadic = true
	}
	return f
}

const (
	bLit = iota
	bNameRef
	bArrLit
	bCallOp
	bCondOp
	bBuiltin
	bTypeofOp // `(typeof <call>)`: an operator around the call - a failing call still aborts the evaluation
)

type BNode struct {
	Op     int
	V      BV     // bLit, bNameRef
	Text   string // literal / name text
	Kids   []*BNode
	Fn     *bFunc
	Spread bool
	Cond   bool
	BName  string
}

func (n *BNode) text() string {
	switch n.Op {
	case bLit, bNameRef:
		return n.Text
	case bArrLit:
		var p []string
		for _, k := range n.Kids {
			p = append(p, k.text())
		}
		return "[" + strings.Join(p, ", ") + "]"
	case bCallOp, bBuiltin:
		var p []string
		for _, k := range n.Kids {
			p = append(p, k.text())
		}
		nm := n.BName
		if n.Op == bCallOp {
			nm = n.Fn.Name
			if n.Fn.Via != "" {
				nm = "ns." + n.Fn.Via
			}
			if n.Fn.ViaS != "" {
				nm = "inv." + n.Fn.ViaS
			}
		}
		s := nm + "(" + strings.Join(p, ", ")
		if n.Spread {
			if len(s) > 0 && (s[len(s)-1] >= '0' && s[len(s)-1] <= '9' || s[len(s)-1] == '.') {
				s += " " // `128...` would scan as the number `128.` followed by `..`
			}
			s += "..."
		}
		return s + ")"
	case bCondOp:
		return "(" + strconv.FormatBool(n.Cond) + " ? " + n.Kids[0].text() + " : " + n.Kids[1].text() + ")"
	case bTypeofOp:
		if n.Cond {
			return "(typeof " + n.Kids[0].text() + " === 'number')"
		}
		return "(typeof " + n.Kids[0].text() + ")"
	}
	return "null"
}

func ratOf(s string) *big.Rat {
	r, ok := new(big.Rat).SetString(s)
	if !ok {
		panic("bad number literal in generator: " + s)
	}
	return r
}

var numLits = []string{"0", "1", "7", "12.7", "0.5", "2.5", "-3.9", "100", "127", "128", "255", "-128", "-129", "32767", "40000",
	"2147483647", "3000000000", "9007199254740993", "123456789.987654321", "0.99999999999999999999", "1e3", "1.5e2", "-0.5", "-0.99", "1.0000000000000000001",
	"1e-30", "3e33", "2e-25", "7e-23", "1e22", "1e23", "5e-324", "1.7976931348623157e308", "9e-7",
	// the mantissas around 2^53 and 2^63/2^64 with the decimal point moved
	"90071992547409.93", "9007199254740.993", "0.9007199254740993", "-90071992547409.93", "90071992547409.91", "90071992547409.92", "90071992547409.94",
	"9007199254740992", "9007199254740994", "92233720368547758.07", "184467440737095516.15", "9223372036854775807", "4503599627370497.5", "0.1", "0.3", "2.675"}

type bgen struct {
	s     *Stream
	w     *bWorld
	names []string // function names
	data  map[string]BV
	depth int
	rc    *RunCtx
	calls int
}

// argOfKind builds an argument expression of the wanted model kind.
func (g *bgen) argOfKind(k bKind, d int) *BNode {
	s := g.s
	switch k {
	case bNum:
		if d < g.depth && s.Intn(6) == 0 {
			// the result of another call: only functions returning numbers
			if s.Intn(4) == 0 {
				return g.call(bridgeBuiltins[s.Intn(3)], d+1, true) // abs / max / min
			}
			for try := 0; try < 4; try++ {
				f := g.w.funcs[g.names[s.Intn(len(g.names))]]
				if f.Ret <= rFloat64 || f.Ret == rDec {
					return g.call(f, d+1, true)
				}
			}
		}
		if s.Intn(5) == 0 {
			nm := []string{"nd", "ni", "nf"}[s.Intn(3)]
			return &BNode{Op: bNameRef, Text: nm, V: g.data[nm]}
		}
		t := numLits[s.Intn(len(numLits))]
		return &BNode{Op: bLit, Text: t, V: bvNum(ratOf(t))}
	case bStr:
		if s.Intn(5) == 0 {
			return &BNode{Op: bNameRef, Text: "s1", V: g.data["s1"]}
		}
		t := []string{"abc", "", "12", " 7 ", "true", "小", "x y"}[s.Intn(7)]
		return &BNode{Op: bLit, Text: "'" + t + "'", V: bvStr(t)}
	case bBool:
		b := s.Bool(1, 2)
		return &BNode{Op: bLit, Text: strconv.FormatBool(b), V: bvBool(b)}
	case bNull:
		t := []string{"null", "z", "nosuch"}[s.Intn(3)]
		return &BNode{Op: bLit, Text: t, V: bvNull()}
	case bTime:
		return &BNode{Op: bNameRef, Text: "t1", V: g.data["t1"]}
	case bMap:
		nm := []string{"mnum", "mstr", "mmix", "mempty", "mnil"}[s.Intn(5)]
		return &BNode{Op: bNameRef, Text: nm, V: g.data[nm]}
	case bArr:
		n := &BNode{Op: bArrLit}
		cnt := s.Intn(4)
		ek := bKind(s.Intn(4) + 1) // bool, num, str, arr
		if ek == bArr && d >= g.depth {
			ek = bNum
		}
		mixed := s.Intn(5) == 0
		v := BV{K: bArr, A: []BV{}}
		for i := 0; i < cnt; i++ {
			kk := ek
			if mixed {
				kk = bKind(s.Intn(4)) // null, bool, num, str
			}
			c := g.argOfKind(kk, d+1)
			n.Kids = append(n.Kids, c)
			v.A = append(v.A, c.V)
		}
		n.V = v
		return n
	}
	return &BNode{Op: bLit, Text: "null", V: bvNull()}
}

// kindsFor lists argument kinds by verdict for a parameter type.
func kindsFor(p pType) (call, errk []bKind) {
	for _, k := range []bKind{bNull, bBool, bNum, bStr, bArr, bTime, bMap} {
		probe := BV{K: k, N: big.NewRat(1, 1), S: "abc", A: []BV{}, M: map[string]BV{}}
		v, _ := convert(probe, p)
		switch v {
		case vCall:
			call = append(call, k)
		case vError:
			errk = append(errk, k)
		}
	}
	return
}

func (g *bgen) argFor(p pType, d int) *BNode {
	s := g.s
	if s.Intn(25) == 0 || (p.K == pIface && s.Intn(8) == 0) {
		return &BNode{Op: bLit, Text: "ctx", V: BV{K: bCtx}} // the context itself as an ordinary argument
	}
	call, errk := kindsFor(p)
	switch r := s.Intn(20); {
	case r < 13 && len(call) > 0:
		k := call[s.Intn(len(call))]
		if p.K == pSlice && k == bArr {
			// array whose elements suit the element type
			n := &BNode{Op: bArrLit}
			v := BV{K: bArr, A: []BV{}}
			for i, cnt := 0, s.Intn(4); i < cnt; i++ {
				c := g.argFor(*p.Elem, d+1)
				n.Kids = append(n.Kids, c)
				v.A = append(v.A, c.V)
			}
			n.V = v
			return n
		}
		return g.argOfKind(k, d)
	case r < 16 && len(errk) > 0:
		return g.argOfKind(errk[s.Intn(len(errk))], d)
	}
	return g.argOfKind(bKind(s.Intn(7)), d)
}

// call builds a call expression of f. fit: make the argument count fit.
func (g *bgen) call(f *bFunc, d int, fit bool) *BNode {
	s := g.s
	g.calls++
	n := &BNode{Op: bCallOp, Fn: f}
	fixed := len(f.Params)
	if f.Variadic {
		fixed--
	}
	count := fixed
	if f.Variadic {
		count = fixed + s.Intn(3)
	}
	if !fit && s.Intn(3) == 0 {
		count = s.Intn(len(f.Params) + 3) // 0..n+2
	}
	spread := s.Intn(7) == 0
	if spread {
		if f.Variadic && (fit || s.Intn(3) != 0) {
			count = fixed + 1
		}
		n.Spread = true
	}
	for i := 0; i < count; i++ {
		var p pType
		switch {
		case i < fixed:
			p = f.Params[i]
		case f.Variadic && spread && i == count-1 && s.Intn(4) == 0:
			// a long list from the data: 100 numbers, or 100 values one of which is a string
			nm := []string{"big100", "big100", "bigbad"}[s.Intn(3)]
			n.Kids = append(n.Kids, &BNode{Op: bNameRef, Text: nm, V: g.data[nm]})
			continue
		case f.Variadic && spread && i == count-1:
			p = f.Params[len(f.Params)-1] // the array to spread: elements of the tail type
		case f.Variadic:
			p = *f.Params[len(f.Params)-1].Elem
		default:
			p = pType{K: pIface}
		}
		n.Kids = append(n.Kids, g.argFor(p, d))
	}
	return n // `f(...)` with no argument at all is legal syntax too
}

// ---------------------------------------------------------------- model evaluation

const (
	stOK = iota
	stError
	stUnspec
)

type expCall struct {
	fn   *bFunc
	args []argExp // per declared parameter; the variadic tail is one entry of slice type
}

type bEval struct {
	w        *bWorld
	exp      []expCall
	n        int
	failAt   int
	perFn    map[string]int
	why      string
	errFn    string // the evaluation error must name this function ("" when the error is not a returned one)
	mustName string
	cells    map[string]int64
	remap    map[*bFunc]*bFunc // the data map now holds another function under the same selector
}

func (e *bEval) eval(n *BNode) (BV, int) {
	switch n.Op {
	case bLit, bNameRef:
		return n.V, stOK
	case bArrLit:
		out := BV{K: bArr, A: []BV{}}
		for _, k := range n.Kids {
			v, st := e.eval(k)
			if st != stOK {
				return BV{}, st
			}
			out.A = append(out.A, v)
		}
		return out, stOK
	case bCondOp:
		if n.Cond {
			return e.eval(n.Kids[0])
		}
		return e.eval(n.Kids[1])
	case bTypeofOp: // what the operator yields is not this property's business; that the call happens or fails is
		if _, st := e.eval(n.Kids[0]); st != stOK {
			return BV{}, st
		}
		return BV{K: bUnknown}, stOK
	case bCallOp:
		f := n.Fn
		if r, ok := e.remap[f]; ok {
			f = r
		}
		var args []BV
		for _, k := range n.Kids {
			v, st := e.eval(k)
			if st != stOK {
				return BV{}, st
			}
			args = append(args, v)
		}
		fixed := len(f.Params)
		if f.Variadic {
			fixed--
		}
		mode := "fixed"
		if f.Variadic {
			mode = "variadic"
		}
		if n.Spread {
			mode += "+spread"
		}
		// spread on a non-variadic function: error, not called
		if n.Spread && !f.Variadic {
			e.why = "spread used on non-variadic " + f.sig()
			e.mustName = f.Name
			e.cells["arity:"+mode+":error"]++
			return BV{}, stError
		}
		// argument count
		fits := false
		switch {
		case !f.Variadic:
			fits = len(args) == fixed
		case n.Spread:
			fits = len(args) == fixed+1
		default:
			fits = len(args) >= fixed
		}
		if !fits {
			e.why = strconv.Itoa(len(args)) + " argument(s) do not fit " + f.sig()
			e.mustName = f.Name
			e.cells["arity:"+mode+":error"]++
			return BV{}, stError
		}
		e.cells["arity:"+mode+":fits"]++
		if n.Spread {
			last := args[len(args)-1]
			switch last.K {
			case bArr:
				args = append(args[:len(args)-1], last.A...)
			case bUnknown:
				e.why = "spread of an unknown value"
				return BV{}, stUnspec
			default:
				e.why = "spread of a non-array " + last.String() + " in call of " + f.sig()
				e.mustName = f.Name
				e.cells["spread:non-array:"+bKindNames[last.K]]++
				return BV{}, stError
			}
		}
		// conversion
		ec := expCall{fn: f}
		verd := vCall
		for i := 0; i < fixed; i++ {
			v, cell := convert(args[i], f.Params[i])
			e.cells["cell:"+cell]++
			if v == vUnspec {
				e.why = "unspecified conversion " + cell
				return BV{}, stUnspec
			}
			if v == vError && verd == vCall {
				verd = vError
				e.why = "argument " + strconv.Itoa(i+1) + " " + args[i].String() + " cannot be converted to " + f.Params[i].String() + " of " + f.sig()
			}
			ec.args = append(ec.args, argExp{P: f.Params[i], V: args[i], Cell: cell})
		}
		if f.Variadic {
			tail := BV{K: bArr, A: append([]BV{}, args[fixed:]...)}
			tp := f.Params[len(f.Params)-1]
			for j, a := range tail.A {
				v, cell := convert(a, *tp.Elem)
				e.cells["cell:..."+cell]++
				if v == vUnspec {
					e.why = "unspecified conversion " + cell
					return BV{}, stUnspec
				}
				if v == vError && verd == vCall {
					verd = vError
					e.why = "variadic argument " + strconv.Itoa(j+1) + " " + a.String() + " cannot be converted to " + tp.Elem.String() + " of " + f.sig()
				}
			}
			ec.args = append(ec.args, argExp{P: tp, V: tail, Cell: "variadic tail"})
		}
		if verd == vError {
			e.mustName = f.Name
			return BV{}, stError
		}
		if f.Builtin {
			conv := make([]BV, 0, len(ec.args))
			for _, a := range ec.args {
				conv = append(conv, convertedValue(a.V, a.P))
			}
			for _, c := range conv {
				if hasUnknown(c) {
					e.why = "builtin " + f.Name + " receives a value whose converted form the statement does not fix"
					return BV{}, stUnspec
				}
			}
			e.cells["builtin:"+f.Name]++
			v, st := f.Ref(conv)
			for _, c := range conv {
				if anyApprox(c) && v.K == bNum {
					v.Approx = true // a value that came through a float32 stays approximate
				}
			}
			if st == stError {
				e.why = "builtin " + f.Name + " returns an error"
				e.errFn = f.Name
			}
			if st == stUnspec {
				e.why = "builtin " + f.Name + ": result not fixed for these arguments"
			}
			return v, st
		}
		// the call happens
		e.exp = append(e.exp, ec)
		e.n++
		e.perFn[f.Name]++
		if f.Fail || (e.failAt != 0 && e.n == e.failAt) {
			e.why = "host function " + f.Name + " returned an error"
			e.errFn = f.Name
			return BV{}, stError
		}
		if f.Reenter {
			e.cells["reentrant_evaluation_inside_host_function"]++
			return args[0], stOK
		}
		_, bv := f.retValue(e.perFn[f.Name])
		e.cells["result:"+rKindNames[f.Ret]]++
		return bv, stOK
	}
	return BV{K: bUnknown}, stUnspec
}

// ---------------------------------------------------------------- the run

type bridgeSample struct {
	Funcs   []string `json:"host_functions"`
	Formula string   `json:"formula"`
	FailAt  int      `json:"fault_host_call"`
	Model   string   `json:"model_verdict"`
	Log     []string `json:"invocations_recorded"`
}

func bridgeData(loc *time.Location) (map[string]interface{}, map[string]BV) {
	dec := func(m int64, sc int) *decimal.Big { return decimal.WithContext(decimal.Context128).SetMantScale(m, sc) }
	t1 := time.Date(2021, 3, 4, 5, 6, 7, 8, loc)
	data := map[string]interface{}{
		"nd": dec(4225, 2), "ni": 9, "nf": 1.25, "s1": "from data", "z": nil, "t1": t1,
		"mnum":   map[string]interface{}{"a": dec(1, 0), "b": dec(29, 1)},
		"mstr":   map[string]interface{}{"a": "x", "b": "y"},
		"mmix":   map[string]interface{}{"a": dec(1, 0), "b": "x", "c": true},
		"mempty": map[string]interface{}{},
		"mnil":   map[string]interface{}{"a": nil, "b": dec(3, 0)},
	}
	bigL, bigbad := make([]interface{}, 100), make([]interface{}, 100)
	bigV, bigbadV := BV{K: bArr}, BV{K: bArr}
	for i := 0; i < 100; i++ {
		bigL[i], bigbad[i] = dec(int64(i+1), 0), dec(int64(i+1), 0)
		bigV.A = append(bigV.A, bvInt(int64(i+1)))
		bigbadV.A = append(bigbadV.A, bvInt(int64(i+1)))
	}
	bigbad[70] = "seventy-one"
	bigbadV.A[70] = bvStr("seventy-one")
	data["big100"], data["bigbad"] = bigL, bigbad
	model := map[string]BV{
		"nd": bvNum(big.NewRat(4225, 100)), "ni": bvInt(9), "nf": bvNum(big.NewRat(5, 4)), "s1": bvStr("from data"), "t1": {K: bTime, T: t1},
		"mnum":   {K: bMap, M: map[string]BV{"a": bvInt(1), "b": bvNum(big.NewRat(29, 10))}},
		"mstr":   {K: bMap, M: map[string]BV{"a": bvStr("x"), "b": bvStr("y")}},
		"mmix":   {K: bMap, M: map[string]BV{"a": bvInt(1), "b": bvStr("x"), "c": bvBool(true)}},
		"mempty": {K: bMap, M: map[string]BV{}},
		"mnil":   {K: bMap, M: map[string]BV{"a": bvNull(), "b": bvInt(3)}},
		"big100": bigV, "bigbad": bigbadV,
	}
	return data, model
}

func callString(c bCall) string {
	var p []string
	for _, a := range c.args {
		p = append(p, render(a))
	}
	return c.fn + "(" + strings.Join(p, ", ") + ")"
}

func runBridge(rc *RunCtx) {
	pl := rc.tape.Stream("plan")
	nTasks := 1
	if pl.Intn(6) == 0 {
		nTasks = 2 + pl.Intn(2)
	}
	if nTasks == 1 {
		bridgeOnce(rc, rc.tape.Stream("workload"), rc.tape.Stream("faults"), true)
		return
	}
	// several independent bridge worlds on tasks interleaved at statement level:
	// every task must still match its own model (no leakage through package state)
	wls := make([]*Stream, nTasks)
	fls := make([]*Stream, nTasks)
	for t := range wls {
		wls[t] = rc.tape.Stream("workload-" + strconv.Itoa(t))
		fls[t] = rc.tape.Stream("faults-" + strconv.Itoa(t))
	}
	strat := drawStrategy(pl, rc.tier, false)
	rc.strats[strategyNames[strat.Kind]]++
	sched := NewSched(nTasks, strat, rc.tape.Stream("sched"), 400000)
	tasks := make([]func(), nTasks)
	for t := 0; t < nTasks; t++ {
		t := t
		tasks[t] = func() { bridgeOnce(rc, wls[t], fls[t], t == 0) }
	}
	sched.Run(tasks)
	rc.switches += sched.switches
	rc.faults["preempt"] += sched.switches
	rc.ev.add(sched.trace.h)
	if sched.switches > 0 {
		rc.probe("bridge_worlds_interleaved_at_statement_level")
	}
}

func bridgeOnce(rc *RunCtx, wl, fl *Stream, primary bool) {
	maxParams, maxCalls, depth, nFuncs := 4, 4, 2, 4
	if rc.thorough {
		maxParams, maxCalls, depth, nFuncs = 6, 10, 3, 6
	}
	token := new(int)
	w := &bWorld{funcs: map[string]*bFunc{}, token: token}
	data, model := bridgeData(time.UTC)
	var names []string
	structTaken := map[string]bool{}
	sample := &bridgeSample{}
	for i := 0; i < 1+wl.Intn(nFuncs); i++ {
		nm := "h" + strconv.Itoa(i)
		if wl.Intn(6) == 0 { // a host function whose name differs from a builtin's only by letter case
			alt := []string{"Max", "LEN", "Upper", "Abs", "Join", "Left", "Round", "toint"}[wl.Intn(8)]
			if _, taken := w.funcs[alt]; !taken {
				nm = alt
			}
		}
		f := genBFunc(wl, nm, maxParams)
		w.funcs[nm] = f
		names = append(names, nm)
		if wl.Intn(5) == 0 { // reached through a selector, under a key that is also a builtin's name
			via := []string{"len", "max", "upper", "join", "abs", "fn"}[wl.Intn(6)]
			ns, _ := data["ns"].(map[string]interface{})
			if ns == nil {
				ns = map[string]interface{}{}
				data["ns"] = ns
			}
			if _, taken := ns[via]; !taken {
				f.Via = via
				ns[via] = nil // filled by placeFuncs
			}
		}
		if f.Via == "" && wl.Intn(6) == 0 { // reached through a field of a struct
			fld := []string{"Format", "Len", "Upper"}[wl.Intn(3)]
			if !structTaken[fld] {
				structTaken[fld] = true
				f.ViaS = fld
			}
		}
		data[nm] = w.build(f)
		sample.Funcs = append(sample.Funcs, f.sig())
	}
	decoy := &bFunc{Name: "decoy", Params: []pType{}, Variadic: true, Ret: rInt}
	decoy.Params = append(decoy.Params, pType{K: pSlice, Elem: &pType{K: pIface}})
	placeFuncs := func() {
		inv := BInvoice{Total: 3}
		inv.BAudit.Format = w.build(decoy) // hidden by BInvoice.Format: must never be reached through inv.Format
		for _, nm := range names {
			f := w.funcs[nm]
			fn := w.build(f)
			switch {
			case f.Via != "":
				data["ns"].(map[string]interface{})[f.Via] = fn
				delete(data, nm)
			case f.ViaS == "Format":
				inv.Format = fn
				delete(data, nm)
			case f.ViaS == "Len":
				inv.Len = fn
				delete(data, nm)
			case f.ViaS == "Upper":
				inv.Upper = fn
				delete(data, nm)
			default:
				data[nm] = fn
			}
		}
		data["inv"] = inv
	}
	placeFuncs()
	if wl.Intn(4) == 0 {
		f := &bFunc{Name: "rn", Ctx: true, Params: []pType{{K: pIface}}, Ret: rIface, Reenter: true}
		w.funcs["rn"] = f
		names = append(names, "rn")
		data["rn"] = w.build(f)
		sample.Funcs = append(sample.Funcs, "rn(ctx, interface{}) (interface{}, error) [re-enters the runner with a derived context; that evaluation fails]")
	}
	g := &bgen{s: wl, w: w, names: names, data: model, depth: depth, rc: rc}
	root := &BNode{Op: bArrLit}
	for i, cnt := 0, 1+wl.Intn(maxCalls); i < cnt; i++ {
		f := w.funcs[names[wl.Intn(len(names))]]
		if wl.Intn(4) == 0 {
			f = bridgeBuiltins[wl.Intn(len(bridgeBuiltins))]
		}
		var e *BNode = g.call(f, 0, wl.Intn(4) != 0)
		if wl.Intn(6) == 0 { // a call in the unselected branch is not an evaluated call
			other := g.call(w.funcs[names[wl.Intn(len(names))]], 0, true)
			c := wl.Bool(1, 2)
			if c {
				e = &BNode{Op: bCondOp, Cond: true, Kids: []*BNode{e, other}}
			} else {
				e = &BNode{Op: bCondOp, Cond: false, Kids: []*BNode{other, e}}
			}
		}
		if wl.Intn(8) == 0 {
			e = &BNode{Op: bTypeofOp, Cond: wl.Bool(1, 2), Kids: []*BNode{e}}
			rc.probe("call_under_an_operator")
		}
		root.Kids = append(root.Kids, e)
	}
	text := root.text()
	sample.Formula = text
	// how many host calls would the fault-free evaluation make?
	dry := &bEval{w: w, perFn: map[string]int{}, cells: map[string]int64{}}
	dry.eval(root)
	faultPositions := []int{0}
	if fl.Bool(1, 2) { // fault-free and fault-injecting configurations are separate runs
		for k := 1; k <= dry.n && k <= 6; k++ {
			faultPositions = append(faultPositions, k) // every single-fault position, enumerated
		}
	}
	ctx := context.WithValue(context.Background(), ctxKeyT{}, token)
	w.ctx = ctx
	tc := &treeCache{}
	var shape evHash
	shape.addString(text)
	// a long-lived runner: before the formula proper it has seen dozens of calls that had to be
	// refused (wrong argument count, an argument that cannot be converted); it must serve the
	// formula like a new one
	var worn *formula.Runner
	if wl.Intn(16) == 0 {
		for try := 0; try < 30 && worn == nil; try++ {
			c := g.call(w.funcs[names[wl.Intn(len(names))]], 0, wl.Intn(3) != 0)
			t := &bEval{w: w, perFn: map[string]int{}, cells: map[string]int64{}}
			if _, st := t.eval(c); st != stError || t.n != 0 || t.mustName == "" {
				continue
			}
			ctext := c.text()
			src, perr := tc.parse(ctext, false)
			if perr != nil {
				continue
			}
			worn = formula.NewRunner()
			worn.SetThis(data)
			w.runner = worn
			k := 40 + wl.Intn(100)
			for i := 0; i < k; i++ {
				w.log, w.n, w.failAt = nil, 0, 0
				var err error
				var pan interface{}
				func() {
					defer func() {
						if p := recover(); p != nil {
							pan = p
						}
					}()
					_, err = worn.Resolve(ctx, src.Expression)
				}()
				if pan != nil || err == nil || len(w.log) > 0 {
					rc.violation("a call that must be refused is refused every time", "refused-call-burst", "`"+ctext+"` evaluated "+strconv.Itoa(i+1)+" times on one runner: err="+errText(err)+" panic="+panicStr(pan)+" invocations="+strconv.Itoa(len(w.log))+" ; functions: "+strings.Join(sample.Funcs, " | "))
					break
				}
			}
			shape.addString("worn:" + ctext)
			rc.probe("runner_worn_by_refused_calls_before_the_formula")
		}
	}
	for _, failAt := range faultPositions {
		ev := &bEval{w: w, failAt: failAt, perFn: map[string]int{}, cells: map[string]int64{}}
		wantV, st := ev.eval(root)
		// fresh stubs (their per-function invocation counters restart) and a fresh runner
		w.log, w.n, w.failAt = nil, 0, failAt
		placeFuncs()
		r := formula.NewRunner()
		r.SetThis(data)
		if worn != nil {
			r = worn // the data map is the same object; placeFuncs has put fresh stubs into it
		}
		w.runner = r
		var got interface{}
		var err error
		var pan interface{}
		func() {
			defer func() {
				if p := recover(); p != nil {
					pan = p
				}
			}()
			src, perr := tc.parse(text, failAt%2 == 1)
			if perr != nil {
				panic("bridge formula does not parse: " + perr.Error())
			}
			got, err = r.Resolve(ctx, src.Expression)
		}()
		if failAt != 0 && w.n >= failAt {
			rc.fault("host_error")
		}
		if failAt == 0 {
			for c, k := range ev.cells {
				rc.probes[c] += k
			}
		}
		desc := "`" + text + "`"
		if failAt != 0 {
			desc += " with host call " + strconv.Itoa(failAt) + " failing"
		}
		desc += " ; functions: " + strings.Join(sample.Funcs, " | ")
		var recs []string
		for _, c := range w.log {
			recs = append(recs, callString(c))
		}
		shape.addString(strings.Join(recs, ";"))
		if failAt == 0 {
			sample.Log = recs
			sample.Model = []string{"value", "error", "unspecified"}[st] + " " + ev.why
		}
		// the specified prefix of the invocation log
		strict := len(ev.exp)
		for i := 0; i < strict; i++ {
			if i >= len(w.log) {
				f := ev.exp[i].fn
				cls := "not-called/" + f.paramClass()
				if pan != nil {
					cls = "panic-instead-of-call/" + f.paramClass()
				}
				rc.violation("invoked exactly once per evaluated call", cls, desc+": call "+strconv.Itoa(i+1)+" of "+f.sig()+" never happened (recorded: "+strings.Join(recs, "; ")+"; err="+errText(err)+"; panic="+panicStr(pan)+")")
				break
			}
			c := w.log[i]
			x := ev.exp[i]
			if c.fn != x.fn.Name {
				rc.violation("arguments evaluated left to right, calls in source order", "order", desc+": invocation "+strconv.Itoa(i+1)+" is "+c.fn+", model "+x.fn.Name+" (recorded: "+strings.Join(recs, "; ")+")")
				break
			}
			if x.fn.Ctx && !c.ctxOK {
				rc.violation("caller's context as first argument", "ctx", desc+": "+c.fn+" did not receive the caller's context")
			}
			if len(c.args) != len(x.args) {
				rc.violation("converted to declared parameter types", "arg-count", desc+": "+c.fn+" received "+strconv.Itoa(len(c.args))+" values, declared "+strconv.Itoa(len(x.args)))
				break
			}
			for j := range x.args {
				if x.args[j].Cell == "variadic tail" {
					if why := checkArg(c.args[j], x.args[j].V, x.args[j].P); why != "" {
						rc.violation("spread / variadic tail converted element-wise", "arg/variadic-tail/"+x.args[j].P.Elem.String(), desc+": "+c.fn+" variadic tail: "+why)
					}
					continue
				}
				if why := checkArg(c.args[j], x.args[j].V, x.args[j].P); why != "" {
					rc.violation("converted to declared parameter types", "arg/"+x.args[j].Cell, desc+": "+c.fn+" argument "+strconv.Itoa(j+1)+": "+why)
				}
			}
		}
		switch st {
		case stOK:
			if len(w.log) > strict {
				rc.violation("invoked exactly once per evaluated call", "extra-invocation", desc+": recorded "+strings.Join(recs, "; ")+" but only "+strconv.Itoa(strict)+" call(s) are evaluated")
			}
			if pan != nil {
				if len(w.log) >= strict {
					rc.violation("evaluation yields a value", "panic-after-calls", desc+": panic "+panicStr(pan))
				}
			} else if err != nil {
				if len(w.log) >= strict {
					rc.violation("evaluation yields a value", "unexpected-error/"+resultClass(root, ev), desc+": error "+err.Error()+", model value "+wantV.String())
				}
			} else if !matchesB(wantV, got) {
				rc.violation("returned Go numbers become formula numbers", "result/"+resultClass(root, ev), desc+": got "+render(got)+", model "+wantV.String())
			}
		case stError:
			if len(w.log) > strict {
				cls := "called-when-must-not"
				if ev.errFn != "" {
					cls = "call-after-error"
				}
				rc.violation("not called when the call does not fit / no call after a returned error", cls+"/"+ev.mustName, desc+": model: "+ev.why+"; recorded "+strings.Join(recs, "; "))
			}
			if pan != nil {
				rc.violation("evaluation fails with an error", "panic-instead-of-error", desc+": model: "+ev.why+"; panic "+panicStr(pan))
			} else if err == nil {
				rc.violation("evaluation fails with an error", "error-swallowed", desc+": model: "+ev.why+"; got value "+render(got))
			} else if ev.errFn != "" && !strings.Contains(err.Error(), errNameOf(w, ev.errFn)) {
				rc.violation("a returned error aborts evaluation with an error naming the function", "error-does-not-name-function", desc+": error text "+strconv.Quote(err.Error())+" does not contain "+ev.errFn)
			}
		case stUnspec:
			rc.probe("unspecified_cell_met")
			if pan != nil {
				rc.probe("panic_in_unspecified_cell")
			}
			if len(w.log) > strict+1 {
				// after an unspecified call nothing is asserted, but it cannot have produced two invocations before anything else ran
				rc.probe("invocations_after_unspecified_cell")
			}
		}
	}
	// the same runner, the same parsed formula, but the caller has put another function under
	// each selector key in the meantime: the call must reach the function found in the data now
	hasVia := false
	for _, nm := range names {
		if w.funcs[nm].Via != "" {
			hasVia = true
		}
	}
	if hasVia && len(rc.viol) == 0 {
		placeFuncs()
		w.log, w.n, w.failAt = nil, 0, 0
		r := formula.NewRunner()
		r.SetThis(data)
		w.runner = r
		src, perr := tc.parse(text, true)
		if perr == nil {
			func() {
				defer func() { recover() }()
				r.Resolve(ctx, src.Expression) // first evaluation: whatever the runner remembers, it remembers now
			}()
			remap := map[*bFunc]*bFunc{}
			ns2 := map[string]interface{}{}
			for _, nm := range names {
				f := w.funcs[nm]
				if f.Via == "" {
					continue
				}
				alt := *f
				alt.Name = f.Name + "x"
				alt.RetSeed = f.RetSeed + 3
				alt.Fail = false
				remap[f] = &alt
				ns2[f.Via] = w.build(&alt)
			}
			r.SetThisValue("ns", ns2)
			ev := &bEval{w: w, perFn: map[string]int{}, cells: map[string]int64{}, remap: remap}
			for _, c := range w.log {
				ev.perFn[c.fn]++ // the functions that stay were called before: their k-th result depends on k
			}
			_, st := ev.eval(root)
			w.log, w.n = nil, 0
			func() {
				defer func() { recover() }()
				r.Resolve(ctx, src.Expression)
			}()
			r.SetThisValue("ns", data["ns"])
			if st != stUnspec {
				for i := 0; i < len(ev.exp) && i < len(w.log); i++ {
					if w.log[i].fn != ev.exp[i].fn.Name {
						rc.violation("the function found in the data is invoked", "stale-callee", "`"+text+"` evaluated again on the same runner after the caller replaced `ns`: invocation "+strconv.Itoa(i+1)+" reached "+w.log[i].fn+", the data now holds "+ev.exp[i].fn.Name)
						break
					}
				}
				if len(w.log) < len(ev.exp) {
					rc.violation("the function found in the data is invoked", "stale-callee", "`"+text+"` evaluated again on the same runner after the caller replaced `ns`: "+strconv.Itoa(len(w.log))+" invocation(s) recorded, "+strconv.Itoa(len(ev.exp))+" expected")
				}
			}
			rc.probe("selector_callee_replaced_between_evaluations")
		}
	}
	rc.probes["bridge_calls_generated"] += int64(g.calls)
	rc.ev.add(shape.h)
	rc.sig = mix64(rc.sig, shape.h)
	rc.nontriv = rc.nontriv || dry.n > 0 || dry.why != ""
	if primary {
		rc.sample = sample
	}
}

// errNameOf: the name an error must contain - the last segment of the callee expression
func errNameOf(w *bWorld, fn string) string {
	if f, ok := w.funcs[fn]; ok && f.ViaS != "" {
		return f.ViaS
	}
	if f, ok := w.funcs[fn]; ok && f.Via != "" {
		return f.Via
	}
	return fn
}

func panicStr(p interface{}) string {
	if p == nil {
		return "<none>"
	}
	return stripAddrs(panicText(p))
}

func (f *bFunc) paramClass() string {
	var p []string
	for i, q := range f.Params {
		if f.Variadic && i == len(f.Params)-1 {
			p = append(p, "..."+q.Elem.String())
		} else {
			p = append(p, q.String())
		}
	}
	s := strings.Join(p, ",")
	if len(s) > 48 {
		s = s[:48]
	}
	return s
}

func resultClass(root *BNode, ev *bEval) string {
	if len(ev.exp) == 0 {
		return "no-call"
	}
	return rKindNames[ev.exp[len(ev.exp)-1].fn.Ret]
}

// ---------------------------------------------------------------- builtins through the bridge

func anyApprox(v BV) bool {
	if v.Approx {
		return true
	}
	for _, e := range v.A {
		if anyApprox(e) {
			return true
		}
	}
	return false
}

func anyNegZero(v BV) bool {
	if v.NegZero {
		return true
	}
	for _, e := range v.A {
		if anyNegZero(e) {
			return true
		}
	}
	return false
}

func hasUnknown(v BV) bool {
	if v.K == bUnknown {
		return true
	}
	for _, e := range v.A {
		if hasUnknown(e) {
			return true
		}
	}
	return false
}

// convertedValue: the model value a parameter of type p holds after a specified conversion of v.
func convertedValue(v BV, p pType) BV {
	switch p.K {
	case pString:
		switch v.K {
		case bStr:
			return v
		case bBool:
			return bvStr(strconv.FormatBool(v.B))
		}
		return BV{K: bUnknown} // the rendering of a number is not unique
	case pInt, pInt8, pInt16, pInt32, pInt64:
		return bvNum(new(big.Rat).SetInt(truncToward0(v.N)))
	case pFloat64:
		f, _ := v.N.Float64()
		r := new(big.Rat)
		r.SetFloat64(f)
		return bvNum(r)
	case pFloat32:
		out := v
		out.Approx = true
		return out
	case pSlice:
		out := BV{K: bArr, A: []BV{}}
		for _, e := range v.A {
			out.A = append(out.A, convertedValue(e, *p.Elem))
		}
		return out
	}
	return v
}

func sp(k pKind) pType { return pType{K: k} }
func sliceOf(k pKind) pType {
	e := pType{K: k}
	return pType{K: pSlice, Elem: &e}
}

func asciiOnly(xs ...string) bool {
	for _, x := range xs {
		for i := 0; i < len(x); i++ {
			if x[i] >= 0x80 {
				return false
			}
		}
	}
	return true
}

func ratIntOK(r *big.Rat) (int, bool) {
	if !r.IsInt() || !r.Num().IsInt64() {
		return 0, false
	}
	v := r.Num().Int64()
	if v < -1<<30 || v > 1<<30 {
		return 0, false
	}
	return int(v), true
}

var bridgeBuiltins = []*bFunc{
	{Name: "abs", Builtin: true, Params: []pType{sp(pDec)}, Ref: func(a []BV) (BV, int) {
		return bvNum(new(big.Rat).Abs(a[0].N)), stOK
	}},
	{Name: "max", Builtin: true, Variadic: true, Params: []pType{sliceOf(pDec)}, Ref: func(a []BV) (BV, int) {
		if len(a[0].A) == 0 {
			return BV{}, stError
		}
		best := a[0].A[0]
		for _, x := range a[0].A {
			if x.N.Cmp(best.N) > 0 {
				best = x
			}
		}
		if best.N.Sign() == 0 && anyNegZero(a[0]) {
			return BV{}, stUnspec // which of +0 and -0 is the greater is nobody's promise
		}
		return best, stOK
	}},
	{Name: "min", Builtin: true, Variadic: true, Params: []pType{sliceOf(pDec)}, Ref: func(a []BV) (BV, int) {
		if len(a[0].A) == 0 {
			return BV{}, stError
		}
		best := a[0].A[0]
		for _, x := range a[0].A {
			if x.N.Cmp(best.N) < 0 {
				best = x
			}
		}
		if best.N.Sign() == 0 && anyNegZero(a[0]) {
			return BV{}, stUnspec
		}
		return best, stOK
	}},
	{Name: "len", Builtin: true, Params: []pType{sp(pString)}, Ref: func(a []BV) (BV, int) { return bvInt(int64(len(a[0].S))), stOK }},
	{Name: "upper", Builtin: true, Params: []pType{sp(pString)}, Ref: func(a []BV) (BV, int) {
		if !asciiOnly(a[0].S) {
			return BV{}, stUnspec
		}
		return bvStr(strings.ToUpper(a[0].S)), stOK
	}},
	{Name: "lower", Builtin: true, Params: []pType{sp(pString)}, Ref: func(a []BV) (BV, int) {
		if !asciiOnly(a[0].S) {
			return BV{}, stUnspec
		}
		return bvStr(strings.ToLower(a[0].S)), stOK
	}},
	{Name: "left", Builtin: true, Params: []pType{sp(pString), sp(pInt)}, Ref: func(a []BV) (BV, int) {
		n, ok := ratIntOK(a[1].N)
		if !ok || n < 0 || !asciiOnly(a[0].S) {
			return BV{}, stUnspec
		}
		if n > len(a[0].S) {
			n = len(a[0].S)
		}
		return bvStr(a[0].S[:n]), stOK
	}},
	{Name: "right", Builtin: true, Params: []pType{sp(pString), sp(pInt)}, Ref: func(a []BV) (BV, int) {
		n, ok := ratIntOK(a[1].N)
		if !ok || n < 0 || !asciiOnly(a[0].S) {
			return BV{}, stUnspec
		}
		if n > len(a[0].S) {
			n = len(a[0].S)
		}
		return bvStr(a[0].S[len(a[0].S)-n:]), stOK
	}},
	{Name: "contains", Builtin: true, Params: []pType{sp(pString), sp(pString)}, Ref: func(a []BV) (BV, int) {
		return bvBool(strings.Contains(a[0].S, a[1].S)), stOK
	}},
	{Name: "find", Builtin: true, Params: []pType{sp(pString), sp(pString)}, Ref: func(a []BV) (BV, int) {
		if !asciiOnly(a[0].S, a[1].S) {
			return BV{}, stUnspec
		}
		return bvInt(int64(strings.Index(a[0].S, a[1].S))), stOK
	}},
	{Name: "replace", Builtin: true, Params: []pType{sp(pString), sp(pString), sp(pString)}, Ref: func(a []BV) (BV, int) {
		if a[1].S == "" {
			return BV{}, stUnspec
		}
		return bvStr(strings.ReplaceAll(a[0].S, a[1].S, a[2].S)), stOK
	}},
	{Name: "join", Builtin: true, Params: []pType{sliceOf(pString), sp(pString)}, Ref: func(a []BV) (BV, int) {
		var p []string
		for _, e := range a[0].A {
			p = append(p, e.S)
		}
		return bvStr(strings.Join(p, a[1].S)), stOK
	}},
	{Name: "includes", Builtin: true, Params: []pType{sliceOf(pString), sp(pString)}, Ref: func(a []BV) (BV, int) {
		for _, e := range a[0].A {
			if e.S == a[1].S {
				return bvBool(true), stOK
			}
		}
		return bvBool(false), stOK
	}},
	{Name: "finite", Builtin: true, Params: []pType{sp(pIface)}, Ref: func(a []BV) (BV, int) {
		if a[0].K == bNum {
			return a[0], stOK
		}
		return bvInt(0), stOK
	}},
	{Name: "year", Builtin: true, Params: []pType{sp(pTime)}, Ref: func(a []BV) (BV, int) { return bvInt(civilOf(a[0].T).Y), stOK }},
	{Name: "month", Builtin: true, Params: []pType{sp(pTime)}, Ref: func(a []BV) (BV, int) { return bvInt(civilOf(a[0].T).M), stOK }},
	{Name: "day", Builtin: true, Params: []pType{sp(pTime)}, Ref: func(a []BV) (BV, int) { return bvInt(civilOf(a[0].T).D), stOK }},
}
