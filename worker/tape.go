package main

import "math"

// The choice tape: one integer (the run seed) decides everything.
//
// Every decision of a run is a Draw from a named stream. In search mode a
// stream is a SplitMix64 generator seeded from (run seed, stream name) and the
// drawn values are recorded; in replay mode the values come from the recorded
// tape (reduced mod n; an exhausted tape yields 0, which by construction is the
// simplest alternative everywhere: no fault, no switch, smallest value).
//
// Streams keep workload, schedule and fault choices apart, so the shrinker can
// simplify one without changing the meaning of the others.
//
// All methods are //go:norace and allocation-free after construction: the
// scheduler draws from task goroutines that have, on purpose, no
// happens-before edge between them.

const (
	streamCap = 1 << 15
)

type Stream struct {
	name     string
	state    uint64
	replay   bool
	in       []uint64
	pos      int
	rec      []uint64 // len == streamCap, used up to n
	n        int
	overflow bool
}

//go:norace
func splitmix(x *uint64) uint64 {
	*x += 0x9e3779b97f4a7c15
	z := *x
	z = (z ^ (z >> 30)) * 0xbf58476d1ce4e5b9
	z = (z ^ (z >> 27)) * 0x94d049bb133111eb
	return z ^ (z >> 31)
}

//go:norace
func mix64(a, b uint64) uint64 {
	x := a ^ (b * 0x9e3779b97f4a7c15) ^ 0xd1b54a32d192ed03
	return splitmix(&x)
}

func hashString(s string) uint64 {
	h := uint64(1469598103934665603)
	for i := 0; i < len(s); i++ {
		h ^= uint64(s[i])
		h *= 1099511628211
	}
	return h
}

// Draw returns a value in [0,n). n must be >= 1.
//
//go:norace
func (s *Stream) Draw(n uint64) uint64 {
	if n <= 1 {
		return 0
	}
	var v uint64
	if s.replay {
		if s.pos < len(s.in) {
			v = s.in[s.pos] % n
		}
		s.pos++
	} else {
		v = splitmix(&s.state) % n
	}
	if s.n < len(s.rec) {
		s.rec[s.n] = v
		s.n++
	} else {
		s.overflow = true
	}
	return v
}

// DrawBiased is Draw whose search-mode distribution puts probability
// pZeroNum/pZeroDen on 0; replay is identical to Draw.
//
//go:norace
func (s *Stream) DrawBiased(n uint64, pZeroNum, pZeroDen uint64) uint64 {
	if n <= 1 {
		return 0
	}
	if s.replay {
		return s.Draw(n)
	}
	var v uint64
	if splitmix(&s.state)%pZeroDen < pZeroNum {
		v = 0
	} else {
		v = 1 + splitmix(&s.state)%(n-1)
	}
	if s.n < len(s.rec) {
		s.rec[s.n] = v
		s.n++
	} else {
		s.overflow = true
	}
	return v
}

// Geometric draws a gap >= 1 with mean about `mean`, or 0 meaning "never"
// (only on replay of an exhausted / zeroed tape, or with probability 1/64 in
// search so that the zero branch is exercised too).
//
//go:norace
func (s *Stream) Geometric(mean uint64, max uint64) uint64 {
	if s.replay {
		return s.Draw(max + 1)
	}
	var v uint64
	r := splitmix(&s.state)
	if r%64 == 0 {
		v = 0
	} else {
		u := float64(splitmix(&s.state)>>11+1) / float64(1<<53) // (0,1]
		v = 1 + uint64(-float64(mean)*math.Log(u))
		if v > max {
			v = max
		}
	}
	if s.n < len(s.rec) {
		s.rec[s.n] = v
		s.n++
	} else {
		s.overflow = true
	}
	return v
}

func (s *Stream) Bool(num, den uint64) bool { // true with probability num/den; false is the "0" alternative
	if s.replay {
		return s.Draw(2) == 1
	}
	v := uint64(0)
	if splitmix(&s.state)%den < num {
		v = 1
	}
	if s.n < len(s.rec) {
		s.rec[s.n] = v
		s.n++
	} else {
		s.overflow = true
	}
	return v == 1
}

func (s *Stream) Intn(n int) int { return int(s.Draw(uint64(n))) }

// Range returns a value in [lo,hi]; lo is the simplest.
func (s *Stream) Range(lo, hi int) int {
	if hi <= lo {
		return lo
	}
	return lo + int(s.Draw(uint64(hi-lo+1)))
}

func (s *Stream) Recorded() []uint64 {
	out := make([]uint64, s.n)
	copy(out, s.rec[:s.n])
	return out
}

// Tape is the set of streams of one run.
type Tape struct {
	Seed    uint64
	streams map[string]*Stream
	order   []string
	replay  map[string][]uint64 // nil in search mode
}

func NewTape(seed uint64, replay map[string][]uint64) *Tape {
	return &Tape{Seed: seed, streams: map[string]*Stream{}, replay: replay}
}

// Stream returns the named stream, creating it on first use. Must be called
// from the controller only (never from scheduled tasks).
func (t *Tape) Stream(name string) *Stream {
	if s, ok := t.streams[name]; ok {
		return s
	}
	s := &Stream{name: name, state: mix64(t.Seed, hashString(name)), rec: make([]uint64, streamCap)}
	if t.replay != nil {
		s.replay = true
		s.in = t.replay[name]
	}
	t.streams[name] = s
	t.order = append(t.order, name)
	return s
}

func (t *Tape) Export() map[string][]uint64 {
	out := map[string][]uint64{}
	for _, n := range t.order {
		out[n] = t.streams[n].Recorded()
	}
	return out
}

func (t *Tape) Overflow() bool {
	for _, n := range t.order {
		if t.streams[n].overflow {
			return true
		}
	}
	return false
}

// ---------------------------------------------------------------- event hash

// evHash folds the run's event log. Updated from task goroutines: norace.
type evHash struct{ h uint64 }

//go:norace
func (e *evHash) add(x uint64) { e.h = mix64(e.h, x) }

//go:norace
func (e *evHash) addString(s string) {
	h := uint64(1469598103934665603)
	for i := 0; i < len(s); i++ {
		h ^= uint64(s[i])
		h *= 1099511628211
	}
	e.h = mix64(e.h, h)
}
