package main

import (
	"context"
	"fmt"
	"runtime"
	"sort"
	"strconv"
	"strings"
	"time"

	"github.com/aundis/formula"
)

// Scenario `shared` (C09): trees parsed once by the controller are evaluated,
// analysed and accompanied by parsing/formatting of other texts from several
// tasks under the token scheduler. Oracles: the race detector (worker built
// with -race) and op-by-op equality with the task's own sequential execution.

func init() { scenarios["shared"] = runShared }

const (
	opEval = iota
	opFields
	opFieldsNL
	opParse
	opFormat
	opGC
	opKinds
)

var opNames = [...]string{"EVAL", "FIELDS", "FIELDS_NOT_LOCAL", "PARSE", "FORMAT", "POOL_FLUSH"}

type sharedOp struct {
	Kind int `json:"kind"`
	Idx  int `json:"idx"`
}

type sharedScenario struct {
	Formulas []string     `json:"formulas"`
	Others   []string     `json:"other_texts"`
	Specs    []dataSpec   `json:"-"`
	Scripts  [][]sharedOp `json:"-"`
	SpecsS   []string     `json:"data_specs"`
	ScriptsS [][]string   `json:"scripts_per_task"`
	Flush    bool         `json:"pools_flushed_at_every_handover"`
	Sched    []string     `json:"first_context_switches"`
	Zone     string       `json:"zone"`
	Clock    string       `json:"clock"`
	Strategy string       `json:"strategy"`
	Switches int64        `json:"switches"`
	Steps    int64        `json:"steps"`
	Trace    string       `json:"schedule_hash"`
}

var zoneNames = []string{"UTC", "Asia/Shanghai", "America/New_York", "Europe/London", "Australia/Lord_Howe", "Asia/Kathmandu", "America/Havana", "Pacific/Apia", "America/Sao_Paulo", "Africa/Cairo", "Asia/Tehran", "Pacific/Chatham"}

var zoneCache = map[string]*time.Location{}

func loadZone(name string) *time.Location {
	if l, ok := zoneCache[name]; ok {
		return l
	}
	l, err := time.LoadLocation(name)
	if err != nil {
		l = nil
	}
	zoneCache[name] = l
	return l
}

// treeCache: parse once, evaluate many times - the natural deployment. A run
// keeps the trees it parsed and reuses them (for half of the evaluations of a
// text it has seen before), so state hung on a tree or keyed by a node is met
// again by later evaluations.
type treeCache struct {
	trees map[string]*formula.SourceCode
	hits  int
	bufs  [][]byte // the callers' text buffers (one per parse in flight): overwritten as soon as the parse is over
}

func (tc *treeCache) parse(text string, reuse bool) (*formula.SourceCode, error) {
	if tc.trees == nil {
		tc.trees = map[string]*formula.SourceCode{}
	}
	if src, ok := tc.trees[text]; ok && reuse {
		tc.hits++
		return src, nil
	}
	// the caller reads every formula into one and the same buffer, as a server reading requests
	// does; a parsed tree must not depend on what the buffer holds later
	var buf []byte
	if n := len(tc.bufs); n > 0 {
		buf, tc.bufs = tc.bufs[n-1], tc.bufs[:n-1]
	} else {
		buf = make([]byte, 0, 8192)
	}
	var content []byte
	if len(text) <= cap(buf) {
		content = append(buf[:0], text...)
	} else {
		content = []byte(text)
	}
	src, err := formula.ParseSourceCode(content)
	// the parse is over: the caller's buffer receives the next request
	for i := range content {
		content[i] = "$x9'(, "[i%7]
	}
	if len(text) <= cap(buf) {
		tc.bufs = append(tc.bufs, buf)
	}
	if err == nil && src != nil {
		tc.trees[text] = src
	}
	return src, err
}

func safeParse(text string) (src *formula.SourceCode, err error, pan interface{}) {
	defer func() {
		if p := recover(); p != nil {
			pan = p
		}
	}()
	src, err = formula.ParseSourceCode([]byte(text))
	return
}

// genParsable draws formulas until one parses (the generator emits valid
// syntax except for deliberate exotica); falls back to a literal.
func genParsable(s *Stream, cfg genCfg) string {
	for try := 0; try < 4; try++ {
		t := genFormula(s, cfg)
		if src, err, pan := safeParse(t); pan == nil && err == nil && src != nil {
			return t
		}
	}
	return "1 + n1"
}

type taskState struct {
	runner *formula.Runner
	data   map[string]interface{}
	log    *hostLog
	out    []string
	noMap  bool
}

func sharedDoOp(ctx context.Context, ts *taskState, op sharedOp, trees []*formula.SourceCode, others []string) (res string) {
	defer func() {
		if p := recover(); p != nil {
			res = panicOutcome(p)
		}
	}()
	if ts.runner == nil {
		// every goroutine makes its own runner, as its first step: the very first use of the
		// package in a process may well happen on several goroutines at once
		ts.runner = formula.NewRunner()
		if !ts.noMap {
			ts.runner.SetThis(ts.data)
		}
	}
	switch op.Kind {
	case opEval:
		n0 := len(ts.log.calls)
		v, err := ts.runner.Resolve(ctx, trees[op.Idx].Expression)
		return outcome(v, err) + " host=" + strings.Join(ts.log.calls[n0:], ";")
	case opFields, opFieldsNL:
		var fs []string
		var err error
		if op.Kind == opFields {
			fs, err = formula.ResolveReferenceFields(trees[op.Idx])
		} else {
			fs, err = formula.ResolveReferenceFieldsNotLocal(trees[op.Idx])
		}
		if err != nil {
			return "E:" + err.Error()
		}
		fs = append([]string(nil), fs...)
		sort.Strings(fs)
		return "F:" + strings.Join(fs, ",")
	case opParse:
		src, err := formula.ParseSourceCode([]byte(others[op.Idx]))
		if err != nil {
			return "E:" + err.Error()
		}
		h, n := deepHash(src)
		v, err := ts.runner.Resolve(ctx, src.Expression)
		return "T:" + strconv.FormatUint(h, 16) + "/" + strconv.Itoa(n) + " " + outcome(v, err)
	case opFormat:
		src, err := formula.ParseSourceCode([]byte(others[op.Idx]))
		if src == nil {
			return "E:nil source"
		}
		var parts []string
		for _, d := range src.Diagnostics {
			parts = append(parts, formula.FormatDiagnostic(src, d))
		}
		es := "<nil>"
		if err != nil {
			es = err.Error()
		}
		return "D:" + strings.Join(parts, "|") + " err=" + es
	case opGC:
		runtime.GC()
		runtime.GC()
		return "gc"
	}
	return "?"
}

func runShared(rc *RunCtx) {
	wl := rc.tape.Stream("workload")
	pl := rc.tape.Stream("plan")
	maxForm, maxTasksN, maxOps, nodes, depth := 3, 4, 10, 25, 6
	maxSteps := int64(400000)
	if rc.thorough {
		maxForm, maxTasksN, maxOps, nodes, depth = 6, 8, 30, 80, 12
		maxSteps = 1500000
	}
	cfg := genCfg{maxNodes: nodes, maxDepth: depth, clockFns: true, hostFns: true, assign: true}
	sc := &sharedScenario{}
	nf := 1 + wl.Intn(maxForm)
	for i := 0; i < nf; i++ {
		sc.Formulas = append(sc.Formulas, genParsable(wl, cfg))
	}
	no := 1 + wl.Intn(4)
	for i := 0; i < no; i++ {
		t := genFormula(wl, cfg)
		if wl.Bool(1, 2) {
			t = mutateText(wl, t)
		}
		sc.Others = append(sc.Others, t)
	}
	nt := 2 + wl.Intn(maxTasksN-1)
	shareSpec := wl.Bool(1, 2)
	base := genDataSpec(wl)
	for t := 0; t < nt; t++ {
		if shareSpec {
			sc.Specs = append(sc.Specs, base)
		} else {
			sc.Specs = append(sc.Specs, genDataSpec(wl))
		}
		n := 1 + wl.Intn(maxOps)
		var script []sharedOp
		for k := 0; k < n; k++ {
			kind := opEval
			switch r := wl.Intn(20); {
			case r < 11:
				kind = opEval
			case r < 13:
				kind = opFields
			case r < 14:
				kind = opFieldsNL
			case r < 17:
				kind = opParse
			case r < 19:
				kind = opFormat
			default:
				kind = opGC
			}
			idx := 0
			switch kind {
			case opEval, opFields, opFieldsNL:
				idx = wl.Intn(nf)
			case opParse, opFormat:
				idx = wl.Intn(no)
			}
			script = append(script, sharedOp{kind, idx})
		}
		sc.Scripts = append(sc.Scripts, script)
	}
	// environment: zone and frozen clock
	zn := zoneNames[pl.Intn(len(zoneNames))]
	loc := loadZone(zn)
	if loc == nil {
		rc.drop("zone_missing_in_sandbox")
		zn, loc = "UTC", time.UTC
	}
	sc.Zone = zn
	savedLocal := time.Local
	time.Local = loc
	defer func() { time.Local = savedLocal }()
	simClock.now = time.Unix(int64(pl.Intn(4000000000)), int64(pl.Intn(1000000000))).UTC()
	simClock.onRead = nil
	sc.Clock = simClock.now.Format(time.RFC3339Nano)
	strat := drawStrategy(pl, rc.tier, false)
	sc.Strategy = fmt.Sprintf("%s%+v", strategyNames[strat.Kind], strat)
	rc.strats[strategyNames[strat.Kind]]++

	ctx := context.Background()
	parseAll := func() []*formula.SourceCode {
		var trees []*formula.SourceCode
		for _, t := range sc.Formulas {
			src, err, pan := safeParse(t)
			if pan != nil || err != nil || src == nil {
				// cannot happen: genParsable checked it
				panic(fmt.Sprint("formula stopped parsing: ", t, " ", err, pan))
			}
			trees = append(trees, src)
		}
		return trees
	}
	mkStates := func() []*taskState {
		var sts []*taskState
		for t := 0; t < nt; t++ {
			lg := &hostLog{}
			ts := &taskState{log: lg, data: sc.Specs[t].build(lg, loc), noMap: sc.Specs[t].NoMap}
			ts.out = make([]string, 0, len(sc.Scripts[t]))
			sts = append(sts, ts)
		}
		return sts
	}
	opSeed := func(t, k int) uint64 { return mix64(mix64(rc.seed, uint64(t)+77), uint64(k)+1) }

	// ---- concurrent phase first: it must meet the package in whatever state
	// the process is in (cold for the first run of a process)
	trees := parseAll()
	conc := mkStates()
	sched := NewSched(nt, strat, rc.tape.Stream("sched"), maxSteps)
	tasks := make([]func(), nt)
	for t := 0; t < nt; t++ {
		t := t
		tasks[t] = func() {
			ts := conc[t]
			for k, op := range sc.Scripts[t] {
				permReseed(t, opSeed(t, k))
				ts.out = append(ts.out, sharedDoOp(ctx, ts, op, trees, sc.Others))
			}
		}
	}
	sched.Run(tasks)
	rc.switches += sched.switches
	rc.steps += sched.steps
	if sched.capped {
		rc.probe("step_cap_reached_then_serial")
	}
	if sched.deadlock {
		rc.drop("deadlock")
	}
	// ---- sequential reference: every task alone, on freshly parsed trees
	trees2 := parseAll()
	seq := mkStates()
	for t := 0; t < nt; t++ {
		ts := seq[t]
		for k, op := range sc.Scripts[t] {
			permReseed(permSeqSlot, opSeed(t, k))
			ts.out = append(ts.out, sharedDoOp(ctx, ts, op, trees2, sc.Others))
		}
	}
	// ---- compare
	var shape evHash
	for t := 0; t < nt; t++ {
		for k := range sc.Scripts[t] {
			rc.ev.addString(conc[t].out[k])
			shape.addString(seq[t].out[k])
			if strings.HasPrefix(seq[t].out[k], "P:") {
				rc.probe("op_panicked_sequentially")
			}
			if conc[t].out[k] != seq[t].out[k] {
				rc.violation("same result as sequentially", "result-differs/"+opNames[sc.Scripts[t][k].Kind],
					fmt.Sprintf("task %d op %d %s(%d): concurrent %q, sequential %q", t, k, opNames[sc.Scripts[t][k].Kind], sc.Scripts[t][k].Idx, conc[t].out[k], seq[t].out[k]))
			}
			switch sc.Scripts[t][k].Kind {
			case opGC:
				rc.fault("pool_flush")
			}
		}
	}
	rc.ev.add(sched.trace.h)
	rc.ev.add(uint64(sched.switches))
	rc.faults["preempt"] += sched.switches
	rc.sig = mix64(shape.h, sched.trace.h)
	rc.nontriv = sched.switches > 0
	if sched.switches > 0 {
		rc.probe("tasks_interleaved_inside_an_op")
	}
	sc.Switches, sc.Steps, sc.Trace = sched.switches, sched.steps, fmt.Sprintf("%016x", sched.trace.h)
	sc.Flush = flushAtHandover
	sc.Sched = sched.scheduleTrace()
	for t := range sc.Scripts {
		sc.SpecsS = append(sc.SpecsS, specString(sc.Specs[t]))
		var ops []string
		for _, op := range sc.Scripts[t] {
			ops = append(ops, opNames[op.Kind]+"("+strconv.Itoa(op.Idx)+")")
		}
		sc.ScriptsS = append(sc.ScriptsS, ops)
	}
	rc.sample = sc
}
