package main

import (
	"sort"
	"context"
	"errors"
	"fmt"
	"math"
	"sync"
	"strconv"
	"strings"
	"time"

	"github.com/aundis/formula"
	"github.com/ericlagergren/decimal"
)

// Broad, type-directed formula generator: covers every operator, keyword and
// builtin of the language. Its formulas have no independent oracle; they are
// used where two executions of the real code are compared with each other
// (C08, C09) and for the frame condition of C07.

type genCfg struct {
	maxNodes  int
	maxDepth  int
	clockFns  bool // allow now()/toDay()
	hostFns   bool
	assign    bool
	badSyntax bool
}

type gen struct {
	s      *Stream
	cfg    genCfg
	budget int
}

const (
	tNum = iota
	tStr
	tBool
	tArr
	tTime
	tAny
)

// some names use non-ASCII identifier characters: a letter, a combining mark and
// an Arabic-Indic digit (identifier parts that are not identifier starts)
var numNames = []string{"n1", "n2", "n3", "n4", "n1", "n2", "fz", "fnz", "名前", "x\u0662"}
var strNames = []string{"s1", "s2", "s3", "cafe\u0301"}

// (subject, pattern) pairs of which neighbours cannot be told apart once the two strings are
// joined with a separator in either order - and which have different answers
var rePairs = func() [][2]string {
	var out [][2]string
	for _, sep := range []string{"/", ":", "\x00", ""} {
		out = append(out, [2]string{"aaab", "b" + sep + "c"}, [2]string{"c" + sep + "aaab", "b"}) // pattern + sep + subject
		out = append(out, [2]string{"zb" + sep + "b", "zb"}, [2]string{"zb", "b" + sep + "zb"})     // subject + sep + pattern
	}
	return out
}()

var regexpPatterns = []string{"'^a'", "'[0-9]+'", "'l+o'", "'.*'", "'^[A-Z]'", "'b$'", "'a|b'", "'^$'", "'[a-c]+'", "'wor'", "'\\\\d'", "'^.{3}$'", "'x?y'", "'(ab)+'", "'[^a]'", "'o w'",
	"'^h'", "'d$'", "'l{2}'", "'A'", "'[0-9]{2}'", "'^ '", "' $'", "'小'", "'[,]'", "'e.l'", "'^.$'", "'3'", "'[.]5'", "'q+'"}

// texts that fail in the scanner or parser in many different ways (every
// diagnostic message of the library is reachable from one of them)
var brokenTexts = []string{"2_", "[1a]", "1__0", "[2_, 1]", "1_", "0.5_1", "'abc", "\"x\\", "1e", "1e+", "[1,, 2]", "f_id(1,)", "b1 ? 1", "b1 ? 1 :", "(1", "1 2", "(1 2",
	"@", "o1.", "o1..a", "$", "1 +", "[", "f_id(", "z1!.", "'\\u12'", "'\\xZ'", "3abc", "[1 2]", "f_id(1 2)", "n1 n2", "1 ? ", ")", "]", "a ? b", "x y z", "'a\nb'", "typeof", "!", "~", "n1 +* 2"}

// texts whose first character is an identifier part but not an identifier start
var badUnicodeTexts = []string{"\u0662 * 3", "\u0301a + 1", "\u0662x", "1 + \u0663", "n1 + \u0301"}
var localNames = []string{"$a", "$b", "$c"}

func (g *gen) pick(xs []string) string { return xs[g.s.Intn(len(xs))] }

// freshName: a field name nobody has used before (absent from the data: it reads as null). A
// process that serves many tenants meets thousands of distinct names over its life.
func (g *gen) freshName() string {
	words := []string{"customer", "billing", "address", "line", "total", "net", "gross", "tax", "rate", "qty", "unit", "price", "region", "code", "订单", "金额"}
	n := 1 + g.s.Intn(4)
	var p []string
	for i := 0; i < n; i++ {
		p = append(p, words[g.s.Intn(len(words))])
	}
	return strings.Join(p, "_") + "_" + strconv.FormatUint(g.s.Draw(1<<40), 36)
}

// genDeep: shapes whose evaluation and parsing recurse deeply - a long
// left-nested chain of one operator, deep parentheses, deeply nested calls or
// arrays. Real formulas look like this ("sum of 200 terms").
func genDeep(s *Stream, cfg genCfg) string {
	n := 20 + s.Intn(cfg.maxNodes*6)
	if s.Intn(16) == 0 { // now and then a really long sum: thousands of terms, as a generated report formula has
		n = 1500 + s.Intn(4500)
		parts := make([]string, n)
		for i := range parts {
			parts[i] = []string{"1", "n1", "2.5", "n2", "7"}[s.Intn(5)]
		}
		return strings.Join(parts, " + ")
	}
	leaf := func() string {
		return []string{"1", "n1", "2.5", "n2", "o1.a", "$a", "7", "n3"}[s.Intn(8)]
	}
	switch s.Intn(6) {
	case 5: // many calls of one builtin with many different constant arguments
		k := 8 + s.Intn(20)
		parts := make([]string, k)
		for i := range parts {
			parts[i] = "regexp(" + []string{"s1", "s2", "o1.b", "'hello world'"}[s.Intn(4)] + ", " + regexpPatterns[s.Intn(len(regexpPatterns))] + ")"
			if s.Intn(3) == 0 {
				parts[i] = "regexp(rs, rp)"
			}
		}
		return "[" + strings.Join(parts, ", ") + "]"
	case 0, 1:
		op := []string{" + ", " + ", " - ", " * ", " || "}[s.Intn(5)]
		parts := make([]string, n)
		for i := range parts {
			parts[i] = leaf()
		}
		return strings.Join(parts, op)
	case 2:
		d := n / 3
		return strings.Repeat("(", d) + leaf() + " + " + leaf() + strings.Repeat(")", d)
	case 3:
		d := n / 4
		if s.Intn(3) == 0 { // calls nested hundreds deep, next to a sibling call
			d = 500 + s.Intn(400)
			return "max(" + strings.Repeat("abs(", d) + leaf() + strings.Repeat(")", d) + ", abs(" + leaf() + "), ceil(n1))"
		}
		return strings.Repeat("abs(", d) + leaf() + strings.Repeat(")", d)
	default:
		d := n / 4
		return strings.Repeat("[", d) + leaf() + strings.Repeat("]", d)
	}
}

func genFormula(s *Stream, cfg genCfg) string {
	if cfg.maxNodes >= 20 && s.Intn(14) == 0 {
		return genDeep(s, cfg)
	}
	if s.Intn(40) == 0 {
		return badUnicodeTexts[s.Intn(len(badUnicodeTexts))]
	}
	if s.Intn(30) == 0 {
		return brokenTexts[s.Intn(len(brokenTexts))]
	}
	g := &gen{s: s, cfg: cfg, budget: 1 + s.Intn(cfg.maxNodes)}
	if s.Intn(10) == 0 { // a formula over fields nobody has named before (another tenant's record)
		var names []string
		for i, n := 0, 4+s.Intn(20); i < n; i++ {
			names = append(names, g.freshName())
		}
		return "[" + strings.Join(names, ", ") + "]"
	}
	var parts []string
	n := 1
	if cfg.assign && s.Bool(1, 3) {
		n = 1 + s.Intn(3)
	}
	for i := 0; i < n; i++ {
		if cfg.assign && i < n-1 {
			parts = append(parts, g.pick(localNames)+" = "+g.expr(g.s.Intn(tAny+1), 0))
		} else {
			parts = append(parts, g.expr(g.s.Intn(tAny+1), 0))
		}
	}
	text := strings.Join(parts, ", ")
	if s.Intn(5) == 0 {
		text = decorateWS(s, text)
	}
	return text
}

// every kind of white space and line break the language knows, as a caller who pastes
// text from elsewhere or writes a formula over several lines would supply it
var wsExotic = []string{"\t", "\n", "\r\n", "\u00a0", "\u200b", "\ufeff", "\u3000", "\u2003", "\u1680", "\u202f", "\u205f", "\v", "\f", " \n  ", "\u2028", "\u2029", "\u0085", "\u2000\u200a"}

// decorateWS replaces some of the blanks between tokens (never inside a string literal)
// by other white space; the formula stays the same formula.
func decorateWS(s *Stream, text string) string {
	var b strings.Builder
	quote := byte(0)
	for i := 0; i < len(text); i++ {
		c := text[i]
		if quote != 0 {
			b.WriteByte(c)
			if c == '\\' && i+1 < len(text) {
				i++
				b.WriteByte(text[i])
			} else if c == quote {
				quote = 0
			}
			continue
		}
		if c == '\'' || c == '"' {
			quote = c
			b.WriteByte(c)
			continue
		}
		if c == ' ' && s.Intn(3) == 0 {
			b.WriteString(wsExotic[s.Intn(len(wsExotic))])
			continue
		}
		b.WriteByte(c)
	}
	return b.String()
}

func (g *gen) numLit() string {
	switch g.s.Intn(8) {
	case 0:
		return strconv.Itoa(g.s.Intn(10))
	case 1:
		return strconv.Itoa(g.s.Intn(100000))
	case 2:
		return strconv.Itoa(g.s.Intn(1000)) + "." + strconv.Itoa(g.s.Intn(1000))
	case 3:
		return "0." + strings.Repeat("0", g.s.Intn(12)) + strconv.Itoa(1+g.s.Intn(9))
	case 4:
		return strconv.Itoa(1+g.s.Intn(9)) + "e" + strconv.Itoa(g.s.Intn(20))
	case 5:
		return "123456789012345678901234567890"
	case 6:
		return "1_000"
	default:
		return strconv.Itoa(g.s.Intn(3))
	}
}

func (g *gen) strLit() string {
	alts := []string{"''", "'a'", "'abc'", "\"hello world\"", "'x\\ty'", "'It\\'s'", "'小明'", "'12'", "'3.5'", "' pad '", "'A-b_C'", "'\\u0041'"}
	return alts[g.s.Intn(len(alts))]
}

func (g *gen) expr(t int, depth int) string {
	g.budget--
	leaf := g.budget <= 0 || depth >= g.cfg.maxDepth
	switch t {
	case tNum:
		return g.num(depth, leaf)
	case tStr:
		return g.str(depth, leaf)
	case tBool:
		return g.boolean(depth, leaf)
	case tArr:
		return g.arr(depth, leaf)
	case tTime:
		return g.tim(depth, leaf)
	default:
		return g.any(depth, leaf)
	}
}

func (g *gen) num(d int, leaf bool) string {
	if leaf {
		switch g.s.Intn(4) {
		case 0:
			return g.pick(numNames)
		case 1:
			return g.pick(localNames)
		case 2:
			return "o1.a"
		default:
			return g.numLit()
		}
	}
	e := func(t int) string { return g.expr(t, d+1) }
	switch g.s.Intn(24) {
	case 0, 1, 2, 21, 22:
		return e(tNum) + " " + g.pick([]string{"+", "+", "-", "*", "/", "%"}) + " " + e(tNum)
	case 3:
		return e(tNum) + " " + g.pick([]string{"&", "|", "^"}) + " " + e(tNum)
	case 4:
		return g.pick([]string{"-", "+", "~"}) + "(" + e(tNum) + ")"
	case 5:
		return "(" + e(tNum) + ")"
	case 6:
		return g.pick([]string{"abs", "ceil", "floor", "sqrt", "round", "roundBank", "log", "ln"}) + "(" + e(tNum) + ")"
	case 7:
		n := 1 + g.s.Intn(3)
		if g.s.Intn(6) == 0 {
			n = 5 + g.s.Intn(8)
		}
		var as []string
		for i := 0; i < n; i++ {
			as = append(as, e(tNum))
		}
		// sometimes a parenthesised callee, sometimes another spelling of the name (which may be a data field)
		return g.pick([]string{"max", "min", "max", "min", "(max)", "((min))", "Max", "MIN"}) + "(" + strings.Join(as, ", ") + ")"
	case 8:
		return "len(" + e(tStr) + ")"
	case 9:
		return "find(" + e(tStr) + ", " + e(tStr) + ")"
	case 10:
		return g.pick([]string{"toInt", "toFloat", "finite"}) + "(" + e(tAny) + ")"
	case 11:
		return g.pick([]string{"year", "month", "day", "hour", "minute", "second", "weekDay", "millSecond"}) + "(" + e(tTime) + ")"
	case 12:
		return e(tBool) + " ? " + e(tNum) + " : " + e(tNum)
	case 13:
		if g.cfg.assign {
			return "(" + g.pick(localNames) + " = " + e(tNum) + ")"
		}
		return g.numLit()
	case 14:
		return "o1.c.d"
	case 15:
		switch g.s.Intn(4) {
		case 0: // operands with more digits than a machine word holds: quotients that do not terminate
			return g.pick([]string{"sqrt", "ln", "log"}) + "(abs(" + e(tNum) + ") / " + g.pick([]string{"3", "7", "9", "11", "13"}) + " + " + g.pick([]string{"1", "2", "0.5"}) + ")"
		case 1:
			return "exp(" + strconv.Itoa(1+g.s.Intn(9)) + " / " + g.pick([]string{"3", "7", "9", "11", "13"}) + ")"
		case 2:
			return "sqrt(" + g.pick(numNames) + " * " + g.pick(numNames) + " / 7 + 12345678901234567890.5)"
		}
		return "exp(" + strconv.Itoa(g.s.Intn(5)) + ")"
	case 16:
		return "roundCash(" + e(tNum) + ", 2)"
	case 17:
		if g.cfg.hostFns {
			switch g.s.Intn(7) {
			case 0:
				return "f_med(" + g.pick([]string{"fs1", "fs1", "an1", "is1", "[3, 1, 2]"}) + ")"
			case 1:
				return "f_fill(" + g.pick([]string{"o1", "m1", "o1.c"}) + ", " + g.pick([]string{"an1", "an2", "[1, 2]"}) + ")"
			case 2: // a host call that evaluates something itself, to the right of an argument already evaluated
				return "f_sum(" + e(tNum) + ", f_re(" + strconv.Itoa(g.s.Intn(50)) + "))"
			case 3:
				return "max(" + e(tNum) + ", f_re(" + e(tNum) + "), " + e(tNum) + ")"
			}
			return "f_sum(" + e(tNum) + ", " + strconv.Itoa(g.s.Intn(50)) + ")"
		}
		return g.numLit()
	case 18:
		if g.cfg.hostFns {
			return "f_map(" + g.pick([]string{"m1", "m2", "o1"}) + ")"
		}
		return g.numLit()
	case 19:
		switch g.s.Intn(4) {
		case 0: // spread of an array literal
			return "max([" + e(tNum) + ", " + g.numLit() + "]...)"
		case 1: // spread of a long list
			return g.pick([]string{"max", "min"}) + "(an2...)"
		case 2:
			return "max([1, 2, 3, 4, 5, 6, 7, 8, 9, " + e(tNum) + ", 11]...)"
		}
		return "max(an1...)"
	case 20:
		return g.pick([]string{"st1.N", "st2.N", "st2.F", "year", "len"})
	default:
		return g.num(d, true)
	}
}

func (g *gen) str(d int, leaf bool) string {
	if leaf {
		switch g.s.Intn(3) {
		case 0:
			return g.pick(strNames)
		case 1:
			return "o1.b"
		default:
			return g.strLit()
		}
	}
	e := func(t int) string { return g.expr(t, d+1) }
	small := func() string { return strconv.Itoa(g.s.Intn(6)) }
	switch g.s.Intn(18) {
	case 0, 1:
		return e(tStr) + " + " + e(tAny)
	case 2:
		return g.pick([]string{"upper", "lower", "trim", "toString"}) + "(" + e(tStr) + ")"
	case 3:
		return g.pick([]string{"left", "right"}) + "(" + e(tStr) + ", " + small() + ")"
	case 4:
		a := g.s.Intn(4)
		return "mid(" + e(tStr) + ", " + strconv.Itoa(a) + ", " + strconv.Itoa(a+g.s.Intn(4)) + ")"
	case 5:
		return g.pick([]string{"lpad", "rpad"}) + "(" + e(tStr) + ", " + g.pick([]string{"' '", "'0'", "'ab'"}) + ", " + strconv.Itoa(g.s.Intn(12)) + ")"
	case 6:
		return "replace(" + e(tStr) + ", " + e(tStr) + ", " + e(tStr) + ")"
	case 7:
		return "join(" + e(tArr) + ", " + g.pick([]string{"','", "''", "' - '"}) + ")"
	case 8:
		return "toString(" + e(tAny) + ")"
	case 9:
		return "typeof " + e(tAny)
	case 10:
		return "timeFormat(" + e(tTime) + ", " + g.pick([]string{"'2006-01-02'", "'2006-01-02 15:04:05'", "'15:04'", "'Mon Jan 2'"}) + ")"
	case 11:
		return e(tBool) + " ? " + e(tStr) + " : " + e(tStr)
	case 12:
		return "(" + e(tStr) + ")"
	case 13:
		if g.cfg.hostFns {
			n := g.s.Intn(4)
			var as []string
			for i := 0; i < n; i++ {
				as = append(as, e(tStr))
			}
			return "f_cat(" + strings.Join(as, ", ") + ")"
		}
		return g.strLit()
	case 14:
		if g.cfg.hostFns {
			switch g.s.Intn(3) {
			case 0:
				return "f_cat(" + g.strLit() + ", [" + g.strLit() + "]...)"
			case 1:
				return "f_srt(" + g.pick([]string{"as1", "as1", "['b', 'a']", "an1"}) + ")"
			}
			return "f_cat(as1...)"
		}
		return g.strLit()
	case 15:
		return "st1.S"
	default:
		return g.str(d, true)
	}
}

func (g *gen) boolean(d int, leaf bool) string {
	if leaf {
		return g.pick([]string{"true", "false", "b1", "!b1"})
	}
	e := func(t int) string { return g.expr(t, d+1) }
	switch g.s.Intn(16) {
	case 0, 1:
		return e(tNum) + " " + g.pick([]string{"<", ">", "<=", ">=", "==", "!=", "===", "!=="}) + " " + e(tNum)
	case 2:
		return e(tStr) + " " + g.pick([]string{"<", ">", "<=", ">=", "==", "!=", "===", "!=="}) + " " + e(tStr)
	case 3:
		return e(tAny) + " " + g.pick([]string{"==", "!=", "===", "!=="}) + " " + e(tAny)
	case 4:
		return "!(" + e(tBool) + ")"
	case 5:
		return "!!" + "(" + e(tAny) + ")"
	case 6:
		return g.pick([]string{"startWith", "endWith", "contains"}) + "(" + e(tStr) + ", " + e(tStr) + ")"
	case 7:
		return "includes(" + g.pick([]string{"as1", "['a', 'b']", "[s1, s2]"}) + ", " + e(tStr) + ")"
	case 8:
		if g.s.Intn(3) == 0 { // subject and pattern both from the data: one shared tree, another pair for every caller
			return "regexp(rs, rp)"
		}
		return "regexp(" + e(tStr) + ", " + g.pick(regexpPatterns) + ")"
	case 9:
		return e(tBool) + " && " + e(tBool)
	case 10:
		return e(tBool) + " || " + e(tBool)
	case 11:
		return "(" + e(tBool) + ")"
	case 12:
		return e(tBool) + " ? " + e(tBool) + " : " + e(tBool)
	default:
		return g.boolean(d, true)
	}
}

func (g *gen) arr(d int, leaf bool) string {
	if leaf {
		return g.pick([]string{"as1", "an1", "[]", "['a', 'b']", "[1, 2, 3]"})
	}
	e := func(t int) string { return g.expr(t, d+1) }
	switch g.s.Intn(6) {
	case 0, 1:
		n := g.s.Intn(4)
		t := g.s.Intn(tAny + 1)
		var as []string
		for i := 0; i < n; i++ {
			as = append(as, e(t))
		}
		return "[" + strings.Join(as, ", ") + "]"
	case 2:
		return "mapToArr(l1, " + g.pick([]string{"'name'", "'age'", "'zz'"}) + ")"
	case 3:
		return "[" + e(tStr) + ", " + e(tStr) + "]"
	default:
		return g.arr(d, true)
	}
}

func (g *gen) tim(d int, leaf bool) string {
	if leaf {
		if g.s.Bool(1, 2) {
			if g.s.Intn(6) == 0 {
				return "tz" // the zero time.Time, as a host hands over a field that was never set
			}
			return "t1"
		}
		return fmt.Sprintf("date(%d, %d, %d)", 1900+g.s.Intn(300), g.s.Intn(14), g.s.Intn(33))
	}
	e := func(t int) string { return g.expr(t, d+1) }
	switch g.s.Intn(8) {
	case 0:
		return fmt.Sprintf("addDate(%s, %d, %d, %d)", e(tTime), g.s.Intn(5)-2, g.s.Intn(30)-15, g.s.Intn(80)-40)
	case 1:
		if g.s.Intn(3) == 0 { // the zone name comes from the data: one tree, another zone for every caller
			return "useTimezone(" + e(tTime) + ", zn)"
		}
		return "useTimezone(" + e(tTime) + ", " + g.pick([]string{"'UTC'", "'Asia/Shanghai'", "'America/New_York'", "'No/Where'",
			"'Europe/London'", "'Asia/Kathmandu'", "'Etc/GMT+5'", "'Australia/Lord_Howe'", "'EST'", "'Sim/Torn'", "'Sim/Missing'", "'Sim/Shanghai'"}) + ")"
	case 2:
		if g.cfg.clockFns {
			return g.pick([]string{"now()", "toDay()"})
		}
		return "t1"
	case 3:
		return "date(" + e(tNum) + ", " + strconv.Itoa(1+g.s.Intn(12)) + ", " + strconv.Itoa(1+g.s.Intn(28)) + ")"
	default:
		return g.tim(d, true)
	}
}

func (g *gen) any(d int, leaf bool) string {
	if leaf {
		if g.s.Intn(8) == 0 {
			return g.freshName()
		}
		return g.pick([]string{"Max", "Len", "null", "z1", "this.s1", "o1", "o1.c", "nope", "nope.x", "l1", "st1", "1", "'s'", "true", "$a", "ctx", "m1",
			"cv.name", "cv.Name", "cv.NAME", "cv.naME", "cv", "tz", "st2", "st2.N", "st2.S", "year", "len", "upper"})
	}
	e := func(t int) string { return g.expr(t, d+1) }
	switch g.s.Intn(14) {
	case 0, 1, 2, 3, 4:
		return e(g.s.Intn(tAny))
	case 5:
		if g.cfg.hostFns {
			return "f_id(" + e(tAny) + ")"
		}
		return e(tNum)
	case 6:
		if g.cfg.hostFns {
			return "f_err(" + e(tAny) + ")"
		}
		return e(tStr)
	case 7:
		return e(tBool) + " ? " + e(tAny) + " : " + e(tAny)
	case 8:
		return e(tAny) + " " + g.pick([]string{"&&", "||"}) + " " + e(tAny)
	case 9:
		return "(" + e(tAny) + ", " + e(tAny) + ")"
	case 10:
		return "o1!.c!.d"
	case 11:
		return "z1!.x"
	case 12:
		return "this.n1"
	default:
		return g.any(d, true)
	}
}

// mutateText makes a syntactically damaged variant (for parse-error paths).
func mutateText(s *Stream, text string) string {
	if len(text) == 0 {
		return "("
	}
	b := []byte(text)
	switch s.Intn(6) {
	case 0:
		return text + " +"
	case 1:
		return "(" + text
	case 2:
		i := s.Intn(len(b))
		return string(b[:i]) + "\n@ " + string(b[i:])
	case 3:
		return text + " 'unterminated"
	case 4:
		return text + "\n\n, [1, 2,, )"
	default:
		i := s.Intn(len(b))
		return string(b[:i])
	}
}

// ---------------------------------------------------------------- data

// dataSpec is a seed-derived description from which any number of fresh,
// unaliased data maps can be built.
type dataSpec struct {
	Variant int   `json:"variant"`
	Nums    []int `json:"nums"`
	Flags   []int `json:"flags"`
	NoMap   bool  `json:"no_map,omitempty"` // the runner is never given a data map: formulas see no fields, locals create the map
}

type simpleStruct struct {
	N int
	S string
	F float64
}

// recA and recB are two different types that both print as "main.rec": types local to a function
// (as two packages api/v1 and api/v2 would both have an Order).
func recA(n int) interface{} {
	type rec struct {
		N int
		S string
		F float64
	}
	return rec{N: n, S: "ra", F: 2.5}
}

func recB(n int) interface{} {
	type rec struct {
		F float64
		S string
		N int
	}
	return rec{N: n, S: "rb", F: 3.5}
}

// otherStruct has the same field names at other positions.
type otherStruct struct {
	F float64
	Pad bool
	S string
	N int
}

func genDataSpec(s *Stream) dataSpec {
	d := dataSpec{Variant: s.Intn(4)}
	for i := 0; i < 8; i++ {
		d.Nums = append(d.Nums, s.Intn(2000)-1000)
	}
	for i := 0; i < 8; i++ {
		d.Flags = append(d.Flags, s.Intn(8))
	}
	d.NoMap = s.Intn(8) == 0
	return d
}

// hostLog records what host functions saw; one per data map (so per task).
type hostLog struct {
	// a host function may be called from goroutines the library itself starts; this
	// mutex orders those calls for the race detector. One log belongs to one task,
	// so it never adds an ordering between tasks.
	mu     sync.Mutex
	calls  []string
	n      int // host invocations since reset
	failAt int // the failAt-th invocation returns an injected error (0: none)
	fired  int
}

func (h *hostLog) add(s string) {
	h.mu.Lock()
	h.calls = append(h.calls, s)
	h.mu.Unlock()
}

// tick counts an invocation and says whether the fault plan makes it fail.
func (h *hostLog) tick() error {
	h.mu.Lock()
	defer h.mu.Unlock()
	h.n++
	if h.failAt != 0 && h.n == h.failAt {
		h.fired++
		return errInjected
	}
	return nil
}

var errInjected = errors.New("injected host failure")

func (d dataSpec) num(i int) interface{} {
	v := d.Nums[i%len(d.Nums)]
	switch d.Flags[i%len(d.Flags)] {
	case 0:
		return v
	case 1:
		return float64(v) / 8
	case 2:
		return decimal.WithContext(decimal.Context128).SetMantScale(int64(v), 2)
	case 3:
		return int64(v) * 1000003
	case 4: // floating-point zeros of either sign
		if v < 0 {
			return math.Copysign(0, -1)
		}
		return float64(0)
	case 5:
		return float32(v) / 4
	case 6:
		return int32(v)
	default:
		switch (v + 1000) % 5 {
		case 0:
			return float64(v) * 1e21 // huge
		case 1:
			return float64(v) * 1e-9 // tiny
		}
		return float64(v % 7) // small integral floats: the same value in many data maps
	}
}

// build creates a fresh data map. Nothing reachable from it is shared with any
// other map built from the same spec (time.Location pointers aside, which are
// immutable).
func (d dataSpec) build(log *hostLog, loc *time.Location) map[string]interface{} {
	if loc == nil {
		loc = time.UTC
	}
	strs := []string{"", "a", "hello world", "Abc", " 12 ", "小红", "3.50", "x,y"}
	m := map[string]interface{}{
		"n1": d.num(0), "n2": d.num(1), "n3": d.num(2), "n4": d.num(3),
		"s1": strs[(d.Nums[4]+1000)%len(strs)], "s2": strs[(d.Nums[5]+1000)%len(strs)], "s3": strs[(d.Nums[6]+1000)%len(strs)],
		"b1": d.Flags[0]%2 == 0,
		"fz": float64(0), "fnz": math.Copysign(0, -1),
		"名前": d.num(2), "x\u0662": d.num(3), "cafe\u0301": strs[(d.Nums[2]+1000)%len(strs)],
		"z1": nil,
		"zn": []string{"UTC", "Asia/Shanghai", "America/New_York", "Europe/London", "Asia/Kathmandu", "Etc/GMT+5", "Australia/Lord_Howe", "Sim/Shanghai"}[(d.Nums[6]+1000)%8],
		"tz": time.Time{},
		"rs": rePairs[(d.Nums[3]+d.Nums[5]+2000)%len(rePairs)][0], "rp": rePairs[(d.Nums[3]+d.Nums[5]+2000)%len(rePairs)][1],
		"cv": map[string]interface{}{"Name": "first", "NAME": "second", "nAmE": d.num(3), "namE": nil}, // keys that differ only in case
		"t1": time.Unix(int64(d.Nums[0])*86400*30+int64(d.Nums[1])*977, int64(d.Nums[2]+1000)*1000).In(loc),
		"o1": map[string]interface{}{
			"a": d.num(4),
			"b": strs[(d.Nums[7]+1000)%len(strs)],
			"c": map[string]interface{}{"d": d.num(5), "e": nil},
		},
		"l1": []map[string]interface{}{
			{"name": "小明", "age": d.num(6)},
			{"name": "bob", "age": d.num(7)},
			{"name": nil},
		},
		"as1": []string{"a", "b", strs[(d.Nums[3]+1000)%len(strs)]},
		"fs1": []float64{float64(d.Nums[0]), float64(d.Nums[1]) / 4, float64(d.Nums[2]), -1},
		"is1": []int{d.Nums[3], d.Nums[4]},
		"an1": []interface{}{d.num(1), d.num(2), decimal.New(int64(d.Nums[3]), 1)},
		"st1": simpleStruct{N: d.Nums[0], S: "st", F: 1.5},
		"an2": []interface{}{d.num(0), d.num(1), d.num(2), d.num(3), d.num(4), d.num(5), d.num(6), d.num(7), d.num(0), d.num(2), d.num(4), d.num(6)},
	}
	if d.Flags[3]%2 == 0 {
		m["st2"] = recA(d.Nums[1])
	} else {
		m["st2"] = recB(d.Nums[1])
	}
	if d.Flags[4]%4 == 0 { // fields named exactly like builtins, read as plain values
		m["year"] = d.num(5)
		m["len"] = d.num(6)
		m["upper"] = "field"
	}
	if d.Flags[2]%2 == 0 { // fields whose names differ from a builtin's only in case
		m["Max"] = d.num(1)
		m["Len"] = strs[(d.Nums[1]+1000)%len(strs)]
	}
	if d.Flags[1]%2 == 1 { // the same name holds another struct type in about half of the data maps
		m["st1"] = otherStruct{N: d.Nums[0], S: "st", F: 1.5, Pad: true}
	}
	switch d.Variant {
	case 0:
		m["m1"] = map[string]interface{}{"x": d.num(0), "y": d.num(1)}
		m["m2"] = map[string]int{"p": 1, "q": d.Nums[2]}
	case 1: // two unconvertible entries of different kinds: the map-order case
		m["m1"] = map[string]interface{}{"x": "str", "y": true, "z": d.num(1)}
		m["m2"] = map[string]interface{}{"k": []interface{}{1}, "l": "no"}
	case 2:
		m["m1"] = map[string]interface{}{}
		m["m2"] = map[string]interface{}{"only": "bad"}
	default:
		m["m1"] = map[string]interface{}{"a": d.num(2), "b": d.num(3), "c": d.num(4), "d": "bad1", "e": false}
		m["m2"] = map[string]interface{}{"x": d.num(0)}
	}
	if log != nil {
		m["f_id"] = func(x interface{}) (interface{}, error) {
			log.add("f_id(" + render(x) + ")")
			if err := log.tick(); err != nil {
				return nil, err
			}
			return x, nil
		}
		m["f_err"] = func(x interface{}) (interface{}, error) {
			log.add("f_err(" + render(x) + ")")
			log.tick()
			return nil, errors.New("host failure")
		}
		m["f_sum"] = func(ctx context.Context, a *decimal.Big, b int) (*decimal.Big, error) {
			log.add("f_sum(" + render(a) + "," + strconv.Itoa(b) + ")")
			if err := log.tick(); err != nil {
				return nil, err
			}
			if a == nil {
				return nil, errors.New("nil number")
			}
			return decimal.WithContext(decimal.Context128).Add(a, decimal.New(int64(b), 0)), nil
		}
		m["f_cat"] = func(parts ...string) (string, error) {
			log.add("f_cat(" + strings.Join(parts, "|") + ")")
			if err := log.tick(); err != nil {
				return "", err
			}
			return strings.Join(parts, ""), nil
		}
		// host functions that work on what they are handed in place, as a median or a sort does:
		// what they are handed is theirs, the caller's slices stay as they were
		m["f_med"] = func(xs []float64) (float64, error) {
			log.add("f_med(" + strconv.Itoa(len(xs)) + ")")
			if err := log.tick(); err != nil {
				return 0, err
			}
			if len(xs) == 0 {
				return 0, nil
			}
			sort.Float64s(xs)
			return xs[len(xs)/2], nil
		}
		m["f_srt"] = func(xs []string) (string, error) {
			log.add("f_srt(" + strconv.Itoa(len(xs)) + ")")
			if err := log.tick(); err != nil {
				return "", err
			}
			sort.Sort(sort.Reverse(sort.StringSlice(xs)))
			for i := range xs {
				xs[i] += "!"
			}
			return strings.Join(xs, ""), nil
		}
		m["f_fill"] = func(mm map[string]interface{}, xs []interface{}) (int, error) {
			log.add("f_fill(" + strconv.Itoa(len(mm)) + "," + strconv.Itoa(len(xs)) + ")")
			if err := log.tick(); err != nil {
				return 0, err
			}
			for k := range mm {
				mm[k] = nil
			}
			mm["added"] = 1
			for i := range xs {
				xs[i] = "overwritten"
			}
			return len(mm) + len(xs), nil
		}
		// evaluates another formula while the calling evaluation is under way, on the runner the
		// context names (the calling one or another one), and hands its argument back
		m["f_re"] = func(ctx context.Context, x interface{}) (interface{}, error) {
			log.add("f_re(" + render(x) + ")")
			if err := log.tick(); err != nil {
				return nil, err
			}
			r, _ := ctx.Value(reKeyT{}).(*formula.Runner)
			if r == nil {
				return x, nil
			}
			src, perr := formula.ParseSourceCode([]byte("max(100, 1) - 93 + len('ab')"))
			if perr != nil {
				return nil, perr
			}
			v, err := r.Resolve(ctx, src.Expression)
			if err != nil {
				return nil, err
			}
			if f, ok := v.(float64); !ok || f != 9 {
				return nil, errors.New("the formula evaluated inside the host function gave " + render(v))
			}
			return x, nil
		}
		m["f_map"] = func(mm map[string]int) (int, error) {
			t := 0
			for _, v := range mm {
				t += v
			}
			log.add("f_map(" + strconv.Itoa(len(mm)) + ")")
			if err := log.tick(); err != nil {
				return 0, err
			}
			return t, nil
		}
	}
	return m
}
