package main

import (
	"context"
	"strconv"
	"strings"
	"time"

	"github.com/aundis/formula"
	"github.com/ericlagergren/decimal"
)

// Scenario `clock` (C19): the date builtins against a simulated wall clock
// (which ticks between reads inside one call and jumps both ways between
// operations), a seed-chosen process zone, and a simulated zone database
// directory with intact, missing, empty, torn and garbage files; calendar
// arithmetic is checked against an independent days-from-civil computation.

func init() { scenarios["clock"] = runClock }

const (
	minUnix = -62135596800 // 0001-01-01T00:00:00Z
	maxUnix = 253402300799 // 9999-12-31T23:59:59Z
)

// zone names of the simulated database (built by the orchestrator under $ZONEINFO)
var simZonesGood = []string{"Sim/Shanghai", "Sim/NewYork", "Sim/LordHowe", "Sim/Kathmandu", "UTC", "Asia/Shanghai", "Europe/London", "",
	"Etc/GMT+5", "Etc/GMT-3", "Etc/GMT+12", "Etc/GMT-14", "Etc/GMT", "America/St_Johns", "Asia/Kolkata", "Pacific/Chatham",
	"America/Argentina/Buenos_Aires", "America/Indiana/Knox", "America/Kentucky/Louisville", "America/North_Dakota/Center", "EST5EDT", "Local",
	"EST", "MST", "HST", "CET", "EET", "WET", "MET", "PST8PDT", "CST6CDT", "MST7MDT", "GB", "NZ", "Japan", "Cuba", "Egypt", "Israel", "Iran", "GMT", "Zulu"}
var simZonesBad = []string{"Sim/Missing", "Sim/Empty", "Sim/Torn", "Sim/Garbage", "No/Such_Zone", "../etc/passwd", "Sim"}

type clockSample struct {
	Zone  string   `json:"process_zone"`
	Start string   `json:"clock_start"`
	Ops   []string `json:"ops"`
}

type clockWorld struct {
	rc     *RunCtx
	r      *formula.Runner
	ctx    context.Context
	loc    *time.Location
	pool   []time.Time
	ops    []string
	ticks  *Stream
	crossed bool
	tc      *treeCache
	nEval   int
}

func (w *clockWorld) violation(oracle, class, detail string) {
	w.rc.violation(oracle, class, detail+" | process zone "+w.loc.String()+" | ops: "+strings.Join(w.ops, " ; "))
}

func (w *clockWorld) eval(text string) (v interface{}, err error, pan interface{}) {
	defer func() {
		if p := recover(); p != nil {
			pan = p
		}
	}()
	w.nEval++
	src, perr := w.tc.parse(text, w.nEval%2 == 0)
	if perr != nil {
		panic("clock formula does not parse: " + text + ": " + perr.Error())
	}
	v, err = w.r.Resolve(w.ctx, src.Expression)
	return
}

func clampUnix(u int64) int64 {
	if u < minUnix {
		return minUnix
	}
	if u > maxUnix {
		return maxUnix
	}
	return u
}

func (w *clockWorld) randomInstant(s *Stream) time.Time {
	if s.Intn(40) == 0 {
		return time.Time{} // the zero time, as a host hands over a field that was never set
	}
	var u int64
	switch s.Intn(8) {
	case 0: // near the epoch
		u = int64(s.Intn(200000)) - 100000
	case 1: // first year
		u = minUnix + int64(s.Intn(400*86400))
	case 2: // last year
		u = maxUnix - int64(s.Intn(400*86400))
	case 3: // outside the int64-nanosecond range on either side
		if s.Bool(1, 2) {
			u = -9223372037 - int64(s.Intn(1000000000))
		} else {
			u = 9223372037 + int64(s.Intn(1000000000))
		}
	case 4: // recent
		u = 946684800 + int64(s.Intn(1500000000))
	default:
		u = minUnix + int64(s.Draw(uint64(maxUnix-minUnix)))
	}
	ns := int64(0)
	if s.Bool(1, 2) {
		ns = int64(s.Intn(1000000000))
	}
	if tr := zoneTransitions(w.loc); len(tr) > 0 && s.Intn(6) == 0 {
		u = tr[s.Intn(len(tr))] + int64(s.Intn(7200)) - 3600 // within an hour of a transition of the process zone
	}
	locs := []*time.Location{w.loc, time.UTC, time.FixedZone("", 19800), time.FixedZone("X", -34200)}
	for _, zn := range []string{"Asia/Shanghai", "America/New_York", "Australia/Lord_Howe", "Asia/Kathmandu", "Europe/London"} {
		if l := loadZone(zn); l != nil {
			locs = append(locs, l)
		}
	}
	return time.Unix(clampUnix(u), ns).In(locs[s.Intn(len(locs))])
}

func (w *clockWorld) pick(s *Stream) time.Time {
	if len(w.pool) > 0 && s.Bool(2, 3) {
		return w.pool[s.Intn(len(w.pool))]
	}
	t := w.randomInstant(s)
	w.pool = append(w.pool, t)
	return t
}

func asTime(v interface{}) (time.Time, bool) {
	t, ok := v.(time.Time)
	return t, ok
}

func numEq(v interface{}, want int64) bool {
	switch x := v.(type) {
	case *decimal.Big:
		return x != nil && x.Cmp(decimal.New(want, 0)) == 0
	case float64:
		return x == float64(want)
	}
	return false
}

// midnightCandidates: acceptable results for "local midnight of the civil date of x".
func midnightOf(x time.Time, loc *time.Location) []int64 {
	f := civilOf(x.In(loc))
	g := daysFromCivil(f.Y, f.M, f.D) * 86400
	return resolveLocal(g, loc)
}

func (w *clockWorld) opNow(s *Stream) {
	// place the clock, decide how it ticks while the call is in progress
	c := simClock
	switch s.Intn(5) {
	case 0: // jump anywhere
		nt := w.randomInstant(s).UTC()
		if nt.Before(c.now) {
			w.rc.fault("clock_jump_back")
		} else {
			w.rc.fault("clock_jump_fwd")
		}
		c.now = nt
	case 1, 2: // just before local midnight
		w.rc.fault("clock_boundary")
		f := civilOf(c.now.In(w.loc))
		g := (daysFromCivil(f.Y, f.M, f.D) + 1) * 86400
		us := resolveLocal(g, w.loc)
		c.now = time.Unix(clampUnix(us[0]-1-int64(s.Intn(3))), int64(s.Intn(1000000000))).UTC()
	default: // small step forwards or backwards
		d := int64(s.Intn(7200)) - 600
		c.now = time.Unix(clampUnix(c.now.Unix()+d), int64(c.now.Nanosecond())).UTC()
		if d < 0 {
			w.rc.fault("clock_jump_back")
		}
	}
	ticks := w.ticks
	c.onRead = func(c *SimClock) {
		var d time.Duration
		switch ticks.Intn(6) {
		case 0, 1:
			d = 0
		case 2:
			d = time.Duration(1+ticks.Intn(1000)) * time.Nanosecond
		case 3:
			d = time.Duration(1+ticks.Intn(5000)) * time.Millisecond
		case 4:
			d = time.Duration(1+ticks.Intn(36*3600)) * time.Second
		default:
			d = -time.Duration(1+ticks.Intn(5000)) * time.Millisecond
		}
		if d != 0 {
			w.rc.fault("clock_tick")
		}
		nt := c.now.Add(d)
		if nt.Unix() < minUnix || nt.Unix() > maxUnix {
			return
		}
		c.now = nt
	}
	defer func() { c.onRead = nil }()
	isToday := s.Bool(1, 2)
	name := "now()"
	if isToday {
		name = "toDay()"
	}
	before := c.now
	c.resetBracket()
	v, err, pan := w.eval(name)
	after := c.now
	w.ops = append(w.ops, name+" @clock "+before.Format(time.RFC3339Nano))
	lo, hi := before, before
	span := []time.Time{after}
	if c.any {
		span = append(span, c.lo, c.hi)
	}
	for _, x := range span {
		if x.Before(lo) {
			lo = x
		}
		if x.After(hi) {
			hi = x
		}
	}
	if fl, fh := civilOf(lo.In(w.loc)), civilOf(hi.In(w.loc)); fl.D != fh.D || fl.M != fh.M || fl.Y != fh.Y {
		w.crossed = true
	}
	if err != nil || pan != nil {
		w.violation("clock builtins return a time", "clock-builtin-failed", name+": err="+errText(err)+" panic="+panicStr(pan))
		return
	}
	t, ok := asTime(v)
	if !ok {
		w.violation("clock builtins return a time", "clock-builtin-failed", name+" returned "+render(v))
		return
	}
	if c.reads == 0 {
		w.rc.probe("clock_builtin_did_not_read_the_simulated_clock")
	}
	if !isToday {
		if t.Before(lo) || t.After(hi) {
			w.violation("now lies within the wall-clock bracket of the call", "now-outside-bracket", name+" = "+t.Format(time.RFC3339Nano)+", bracket ["+lo.Format(time.RFC3339Nano)+", "+hi.Format(time.RFC3339Nano)+"]")
		}
		w.pool = append(w.pool, t)
		return
	}
	// toDay: local midnight of the civil date of some instant of the bracket
	okDay := false
	var cands []string
	// every civil day from the day of lo to the day of hi (stepping by 24 hours would skip a
	// day that a zone transition made shorter)
	fl, fh := civilOf(lo.In(w.loc)), civilOf(hi.In(w.loc))
	dlo, dhi := daysFromCivil(fl.Y, fl.M, fl.D), daysFromCivil(fh.Y, fh.M, fh.D)
	for d := dlo; d <= dhi; d++ {
		if d > dlo+40 && d < dhi { // a jump over many days: the ends suffice for the message, all days count
			if t.Nanosecond() == 0 && containsInt64(resolveLocal(d*86400, w.loc), t.Unix()) {
				okDay = true
			}
			continue
		}
		for _, u := range resolveLocal(d*86400, w.loc) {
			cands = append(cands, time.Unix(u, 0).In(w.loc).Format(time.RFC3339))
			if t.Unix() == u && t.Nanosecond() == 0 {
				okDay = true
			}
		}
	}
	if !okDay {
		w.violation("toDay is local midnight of a day inside the wall-clock bracket", "today-not-midnight-of-bracket", name+" = "+t.Format(time.RFC3339Nano)+", bracket ["+lo.In(w.loc).Format(time.RFC3339Nano)+", "+hi.In(w.loc).Format(time.RFC3339Nano)+"], acceptable "+strings.Join(cands, ","))
	}
	if t.Location().String() != w.loc.String() {
		w.violation("toDay is a local time", "today-zone", name+" is in zone "+t.Location().String())
	}
	w.pool = append(w.pool, t)
}

// numForm writes the integer v the way formulas do: mostly plainly, sometimes with an exponent,
// as an exact quotient, with a ".0", or with a fraction that truncation toward zero removes.
func numForm(s *Stream, v int64) string {
	plain := strconv.FormatInt(v, 10)
	switch s.Intn(12) {
	case 0:
		if v != 0 && v%10 == 0 {
			e := 0
			for v%10 == 0 {
				v /= 10
				e++
			}
			return strconv.FormatInt(v, 10) + "e" + strconv.Itoa(e)
		}
	case 1:
		k := int64(2 + s.Intn(9))
		return "(" + strconv.FormatInt(v*k, 10) + " / " + strconv.FormatInt(k, 10) + ")"
	case 2:
		return plain + ".0"
	case 3:
		return plain + "." + strconv.Itoa(1+s.Intn(9))
	}
	return plain
}

func (w *clockWorld) opDate(s *Stream) {
	y := int64(1 + s.Intn(9999))
	if s.Intn(3) == 0 { // some years are asked for again and again
		y = []int64{2023, 2024, 2000, 1999}[s.Intn(4)]
	}
	var m, d int64
	if s.Bool(1, 2) {
		m, d = int64(1+s.Intn(12)), int64(1+s.Intn(31))
	} else {
		m, d = int64(s.Intn(111))-50, int64(s.Intn(111))-50
	}
	if tr := zoneTransitions(w.loc); len(tr) > 0 && s.Intn(4) == 0 {
		// the day a zone transition falls on, or a neighbour: local midnight may not exist or exist twice
		f := civilOf(time.Unix(tr[s.Intn(len(tr))], 0).In(w.loc))
		y, m, d = f.Y, f.M, f.D+int64(s.Intn(3))-1
		w.rc.probe("date_aimed_at_a_zone_transition")
	}
	text := "date(" + numForm(s, y) + ", " + numForm(s, m) + ", " + numForm(s, d) + ")"
	w.ops = append(w.ops, text)
	v, err, pan := w.eval("$t = " + text)
	t, ok := asTime(v)
	if err != nil || pan != nil || !ok {
		w.violation("date returns a time", "date-failed", text+": "+render(v)+" err="+errText(err)+" panic="+panicStr(pan))
		return
	}
	g := normalisedDays(y, m, d) * 86400
	want := resolveLocal(g, w.loc)
	if !containsInt64(want, t.Unix()) || t.Nanosecond() != 0 {
		var ws []string
		for _, u := range want {
			ws = append(ws, time.Unix(u, 0).In(w.loc).Format(time.RFC3339))
		}
		w.violation("date(y,m,d) is local midnight of the carried civil date", "date-wrong-instant", text+" = "+t.Format(time.RFC3339Nano)+", acceptable "+strings.Join(ws, ","))
	}
	if t.Location().String() != w.loc.String() {
		w.violation("date(y,m,d) is a local time", "date-zone", text+" is in zone "+t.Location().String())
	}
	w.pool = append(w.pool, t)
	if m < 1 || m > 12 || d < 1 || d > 28 {
		w.rc.probe("date_with_carry")
	}
}

func (w *clockWorld) opExtract(s *Stream) {
	t := w.pick(s)
	w.r.SetThisValue("t0", t)
	text := "[year(t0), month(t0), day(t0), hour(t0), minute(t0), second(t0), weekDay(t0), millSecond(t0)]"
	w.ops = append(w.ops, "extract "+t.Format(time.RFC3339Nano)+" "+t.Location().String())
	v, err, pan := w.eval(text)
	arr, ok := v.([]interface{})
	if err != nil || pan != nil || !ok || len(arr) != 8 {
		w.violation("field extractors return numbers", "extract-failed", text+": "+render(v)+" err="+errText(err)+" panic="+panicStr(pan))
		return
	}
	f := civilOf(t)
	ms := t.Unix()*1000 + int64(t.Nanosecond())/1000000
	want := []int64{f.Y, f.M, f.D, f.h, f.m, f.s, f.wd, ms}
	names := []string{"year", "month", "day", "hour", "minute", "second", "weekDay", "millSecond"}
	for i := range want {
		if !numEq(arr[i], want[i]) {
			w.violation("civil fields of a time in its own zone", "field/"+names[i], names[i]+"("+t.Format(time.RFC3339Nano)+" "+t.Location().String()+") = "+render(arr[i])+", calendar oracle "+strconv.FormatInt(want[i], 10))
		}
	}
	if t.Unix() < -9223372036 || t.Unix() > 9223372036 {
		w.rc.probe("extract_outside_int64_nanosecond_range")
	}
}

func (w *clockWorld) opAddDate(s *Stream) {
	t := w.pick(s)
	var dy, dm, dd int64
	switch s.Intn(3) {
	case 0:
		dy, dm, dd = int64(s.Intn(5))-2, int64(s.Intn(25))-12, int64(s.Intn(63))-31
	case 1:
		dy, dm, dd = int64(s.Intn(801))-400, int64(s.Intn(10001))-5000, int64(s.Intn(10001))-5000
	default:
		dy, dm, dd = 0, int64(s.Intn(3))-1, int64(s.Intn(3))-1
	}
	if tr := zoneTransitions(t.Location()); len(tr) > 0 && s.Intn(4) == 0 {
		// land on the civil day (and near the wall-clock time) of a transition of the time's own zone
		target := civilOf(time.Unix(tr[s.Intn(len(tr))], 0).In(t.Location()))
		f := civilOf(t)
		dy, dm = int64(s.Intn(3))-1, int64(s.Intn(5))-2
		// choose the day shift so that y+dy / m+dm / d+dd normalises to the target day
		dd = daysFromCivil(target.Y, target.M, target.D) - normalisedDays(f.Y+dy, f.M+dm, f.D)
		if dd > 3000000 || dd < -3000000 {
			dy, dm, dd = 0, 0, int64(s.Intn(3))-1
		} else {
			w.rc.probe("adddate_aimed_at_a_zone_transition")
		}
	}
	w.r.SetThisValue("t0", t)
	text := "addDate(t0, " + numForm(s, dy) + ", " + numForm(s, dm) + ", " + numForm(s, dd) + ")"
	w.ops = append(w.ops, text+" on "+t.Format(time.RFC3339Nano)+" "+t.Location().String())
	v, err, pan := w.eval(text)
	r, ok := asTime(v)
	if err != nil || pan != nil || !ok {
		w.violation("addDate returns a time", "adddate-failed", text+": "+render(v)+" err="+errText(err)+" panic="+panicStr(pan))
		return
	}
	f := civilOf(t)
	days := normalisedDays(f.Y+dy, f.M+dm, f.D+dd)
	g := days*86400 + f.h*3600 + f.m*60 + f.s
	if g < minUnix-86400*2 || g > maxUnix+86400*2 {
		w.rc.probe("adddate_result_outside_years_1_9999")
		return // the statement quantifies over years 1-9999
	}
	want := resolveLocal(g, t.Location())
	if !containsInt64(want, r.Unix()) || r.Nanosecond() != t.Nanosecond() {
		var ws []string
		for _, u := range want {
			ws = append(ws, time.Unix(u, int64(t.Nanosecond())).In(t.Location()).Format(time.RFC3339Nano))
		}
		w.violation("addDate shifts civil fields with carry, keeping time of day and zone", "adddate-wrong-instant", text+" on "+t.Format(time.RFC3339Nano)+" ["+t.Location().String()+"] = "+r.Format(time.RFC3339Nano)+", acceptable "+strings.Join(ws, ","))
	}
	if r.Location().String() != t.Location().String() {
		w.violation("addDate keeps the zone", "adddate-zone", text+": zone "+r.Location().String()+" from "+t.Location().String())
	}
	w.pool = append(w.pool, r)
}

// hostText: text as hosts often type it
type hostText string

func (w *clockWorld) opUseTZ(s *Stream) {
	t := w.pick(s)
	var name string
	if s.Bool(3, 5) {
		name = simZonesGood[s.Intn(len(simZonesGood))]
	} else {
		name = simZonesBad[s.Intn(len(simZonesBad))]
	}
	loc, lerr := time.LoadLocation(name) // the truth under the same simulated zone database
	w.r.SetThisValue("t0", t)
	text := "useTimezone(t0, '" + name + "')"
	switch s.Intn(10) {
	case 0: // the name comes from the data, as a string
		w.r.SetThisValue("zn", name)
		text = "useTimezone(t0, zn)"
	case 1: // ... or as a value of a named string type
		w.r.SetThisValue("zn", hostText(name))
		text = "useTimezone(t0, zn)"
	}
	if lerr != nil && s.Intn(3) == 0 {
		text = "useTimezone(now(), '" + name + "')" // an evaluation that reads the clock and then fails
	}
	w.ops = append(w.ops, text+" on "+t.Format(time.RFC3339Nano))
	v, err, pan := w.eval(text)
	if lerr != nil {
		switch {
		case strings.HasSuffix(name, "Missing") || strings.HasPrefix(name, "No/"):
			w.rc.fault("zone_missing")
		case strings.HasSuffix(name, "Empty"):
			w.rc.fault("zone_empty")
		case strings.HasSuffix(name, "Torn"):
			w.rc.fault("zone_torn")
		default:
			w.rc.fault("zone_malformed")
		}
		if pan != nil || err == nil {
			w.violation("useTimezone fails with an error for an unknown zone", "usetz-no-error", text+" (LoadLocation: "+lerr.Error()+") gave "+render(v)+" panic="+panicStr(pan))
		}
		return
	}
	r, ok := asTime(v)
	if err != nil || pan != nil || !ok {
		w.violation("useTimezone returns the time in the zone", "usetz-failed", text+": "+render(v)+" err="+errText(err)+" panic="+panicStr(pan))
		return
	}
	if !r.Equal(t) || r.Nanosecond() != t.Nanosecond() {
		w.violation("useTimezone never changes the instant", "usetz-instant-changed", text+" on "+t.Format(time.RFC3339Nano)+" = "+r.Format(time.RFC3339Nano))
	}
	if offsetAt(r.Unix(), r.Location()) != offsetAt(t.Unix(), loc) || r.Location().String() != loc.String() {
		w.violation("useTimezone changes the zone", "usetz-wrong-zone", text+": result zone "+r.Location().String()+", want "+loc.String())
	}
	w.pool = append(w.pool, r)
	w.rc.probe("usetz_good_zone")
}

// opCancelled evaluates a zone conversion under a context that is already cancelled. The
// statement says nothing about contexts, so the outcome of THIS evaluation is not judged;
// what it may leave behind is judged by every later operation.
func (w *clockWorld) opCancelled(s *Stream) {
	t := w.pick(s)
	name := simZonesGood[s.Intn(len(simZonesGood))]
	w.r.SetThisValue("t0", t)
	text := "useTimezone(t0, '" + name + "')"
	w.ops = append(w.ops, text+" under a cancelled context (outcome not judged)")
	ctx, cancel := context.WithCancel(context.Background())
	cancel()
	saved := w.ctx
	w.ctx = ctx
	w.eval(text)
	w.ctx = saved
	w.rc.probe("evaluation_under_a_cancelled_context")
}

func (w *clockWorld) opFormat(s *Stream) {
	t := w.pick(s)
	layout := numericLayouts[s.Intn(len(numericLayouts))]
	if !w.formatOne(s, t, layout) {
		return
	}
	if s.Intn(3) == 0 {
		// a neighbour of the time just rendered, same layout: every call alone is right, a
		// result remembered under too coarse a key (the second, the day, the zone) is not
		t2 := t
		switch s.Intn(8) {
		case 0:
			t2 = t.Add(time.Nanosecond)
		case 1:
			t2 = t.Add(time.Duration(1+s.Intn(999)) * time.Millisecond)
		case 2: // another fraction of the same second
			t2 = t.Add(time.Duration(s.Intn(1000000000)-t.Nanosecond()) * time.Nanosecond)
		case 3:
			t2 = t.Add(time.Second)
		case 4:
			t2 = t.Add(time.Duration(1+s.Intn(59)) * time.Minute)
		case 5:
			t2 = t.Add(24 * time.Hour)
		case 6: // the same instant in another zone
			if loc, err := time.LoadLocation(simZonesGood[s.Intn(len(simZonesGood))]); err == nil {
				t2 = t.In(loc)
			}
		default: // the same wall-clock reading a whole number of years away
			t2 = t.Add(time.Duration(1+s.Intn(200)) * 365 * 24 * time.Hour)
		}
		if y := t2.Year(); y >= 1 && y <= 9999 {
			w.rc.probe("format_of_a_neighbouring_time")
			w.formatOne(s, t2, layout)
		}
	}
}

func (w *clockWorld) formatOne(s *Stream, t time.Time, layout string) bool {
	want, ok := renderLayout(layout, t)
	if !ok {
		w.rc.probe("format_not_rendered_by_oracle")
		return false
	}
	w.r.SetThisValue("t0", t)
	text := "timeFormat(t0, '" + layout + "')"
	switch s.Intn(10) {
	case 0:
		w.r.SetThisValue("lay", layout)
		text = "timeFormat(t0, lay)"
	case 1:
		w.r.SetThisValue("lay", hostText(layout))
		text = "timeFormat(t0, lay)"
	}
	w.ops = append(w.ops, text+" on "+t.Format(time.RFC3339Nano)+" "+t.Location().String())
	v, err, pan := w.eval(text)
	got, isStr := v.(string)
	if err != nil || pan != nil || !isStr {
		w.violation("timeFormat returns a string", "format-failed", text+": "+render(v)+" err="+errText(err)+" panic="+panicStr(pan))
		return false
	}
	if got != want {
		w.violation("timeFormat renders a time in the given layout", "format-differs", text+" on "+t.Format(time.RFC3339Nano)+" ["+t.Location().String()+"] = "+strconv.Quote(got)+", oracle "+strconv.Quote(want))
	}
	return true
}

// opChain: date -> extractors through a local, in one evaluation and across evaluations.
func (w *clockWorld) opChain(s *Stream) {
	y, m, d := int64(1+s.Intn(9999)), int64(1+s.Intn(12)), int64(1+s.Intn(28))
	text := "$d = date(" + strconv.FormatInt(y, 10) + ", " + strconv.FormatInt(m, 10) + ", " + strconv.FormatInt(d, 10) + "), [year($d), month($d), day($d), hour($d), weekDay($d)]"
	w.ops = append(w.ops, text)
	v, err, pan := w.eval(text)
	arr, ok := v.([]interface{})
	if err != nil || pan != nil || !ok || len(arr) != 5 {
		w.violation("date then extractors", "chain-failed", text+": "+render(v)+" err="+errText(err)+" panic="+panicStr(pan))
		return
	}
	wd := floorMod(daysFromCivil(y, m, d)+4, 7)
	g := daysFromCivil(y, m, d) * 86400
	exists := false
	for _, u := range resolveLocal(g, w.loc) {
		if offsetAt(u, w.loc) == g-u {
			exists = true
		}
	}
	if !exists {
		w.rc.probe("local_midnight_does_not_exist")
		return // the fields of a non-existent midnight are whatever instant Go chose; date-wrong-instant covers it
	}
	want := []int64{y, m, d, 0, wd}
	names := []string{"year", "month", "day", "hour", "weekDay"}
	for i := range want {
		if !numEq(arr[i], want[i]) {
			w.violation("extractors of date(y,m,d) give back y, m, d", "chain/"+names[i], text+": "+names[i]+" = "+render(arr[i])+", want "+strconv.FormatInt(want[i], 10))
		}
	}
}

func runClock(rc *RunCtx) {
	pl := rc.tape.Stream("plan")
	wl := rc.tape.Stream("workload")
	maxOps := 40
	zones := zoneNames[:8]
	if rc.thorough {
		maxOps = 200
		zones = zoneNames
	}
	zn := zones[pl.Intn(len(zones))]
	loc := loadZone(zn)
	if loc == nil {
		rc.drop("zone_missing_in_sandbox")
		zn, loc = "UTC", time.UTC
	}
	rc.fault("zone_switch")
	saved := time.Local
	time.Local = loc
	defer func() { time.Local = saved; simClock.onRead = nil }()
	tc := &treeCache{} // shared by all callers of the run: a parsed formula may be shared across goroutines
	w := &clockWorld{rc: rc, r: formula.NewRunner(), ctx: context.Background(), loc: loc, ticks: rc.tape.Stream("faults"), tc: tc}
	w.r.SetThis(map[string]interface{}{})
	simClock.now = w.randomInstant(pl).UTC()
	simClock.onRead = nil
	sample := &clockSample{Zone: zn, Start: simClock.now.Format(time.RFC3339Nano)}
	n := 5 + wl.Intn(maxOps-4)
	body := func(w *clockWorld, wl *Stream, n int, clockOps bool) {
		for i := 0; i < n && len(rc.viol) == 0; i++ {
			r := wl.Intn(20)
			if !clockOps && r < 5 {
				r = 5 + wl.Intn(15) // the simulated clock belongs to task 0
			}
			switch {
			case r < 5:
				w.opNow(wl)
			case r < 8:
				w.opDate(wl)
			case r < 12:
				w.opExtract(wl)
			case r < 15:
				w.opAddDate(wl)
			case r < 17:
				if wl.Intn(6) == 0 {
					w.opCancelled(wl)
				} else {
					w.opUseTZ(wl)
				}
			case r < 19:
				w.opFormat(wl)
			default:
				w.opChain(wl)
			}
		}
	}
	extra := 0
	if pl.Intn(5) == 0 {
		extra = 1 + pl.Intn(2)
	}
	worlds := []*clockWorld{w}
	if extra == 0 {
		body(w, wl, n, true)
	} else {
		// further callers with their own runners, interleaved at statement level; they share
		// the process zone and the zone database, as concurrent callers of a real process do
		streams := []*Stream{wl}
		counts := []int{n}
		for t := 1; t <= extra; t++ {
			ws := rc.tape.Stream("workload-" + strconv.Itoa(t))
			wt := &clockWorld{rc: rc, r: formula.NewRunner(), ctx: context.Background(), loc: loc, ticks: rc.tape.Stream("faults-" + strconv.Itoa(t)), tc: tc}
			wt.r.SetThis(map[string]interface{}{})
			worlds = append(worlds, wt)
			streams = append(streams, ws)
			counts = append(counts, 3+ws.Intn(maxOps/2))
		}
		strat := drawStrategy(pl, rc.tier, false)
		rc.strats[strategyNames[strat.Kind]]++
		sched := NewSched(len(worlds), strat, rc.tape.Stream("sched"), 400000)
		tasks := make([]func(), len(worlds))
		for t := range worlds {
			t := t
			tasks[t] = func() { body(worlds[t], streams[t], counts[t], t == 0) }
		}
		sched.Run(tasks)
		rc.switches += sched.switches
		rc.faults["preempt"] += sched.switches
		rc.ev.add(sched.trace.h)
		if sched.switches > 0 {
			rc.probe("date_builtins_interleaved_at_statement_level")
		}
		for _, wt := range worlds[1:] {
			w.ops = append(w.ops, "|| "+strings.Join(wt.ops, " ; "))
			if wt.crossed {
				w.crossed = true
			}
		}
	}
	if w.crossed {
		rc.probe("midnight_crossed_inside_a_clock_call")
	}
	var shape evHash
	for _, o := range w.ops {
		shape.addString(o)
	}
	rc.probes["clock_ops"] += int64(len(w.ops))
	rc.probes["evaluations_of_an_already_evaluated_tree"] += int64(tc.hits)
	rc.ev.add(shape.h)
	rc.sig = shape.h
	rc.nontriv = len(w.ops) >= 2
	sample.Ops = w.ops
	if len(sample.Ops) > 30 {
		sample.Ops = sample.Ops[:30]
	}
	rc.sample = sample
}
