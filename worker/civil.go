package main

import (
	"strconv"
	"strings"
	"time"
)

// Independent proleptic-Gregorian calendar arithmetic (days-from-civil /
// civil-from-days, after H. Hinnant), used as the oracle of C19. Nothing here
// calls time.Date, Time.Year, Time.AddDate, Time.Weekday or Time.Format; the
// only thing taken from package time is the UTC offset in force at an instant.

func floorDiv(a, b int64) int64 {
	q := a / b
	if (a%b != 0) && ((a < 0) != (b < 0)) {
		q--
	}
	return q
}

func floorMod(a, b int64) int64 { return a - floorDiv(a, b)*b }

// daysFromCivil: days since 1970-01-01 of the civil date y-m-d (m in 1..12, d any).
func daysFromCivil(y, m, d int64) int64 {
	if m <= 2 {
		y--
	}
	era := floorDiv(y, 400)
	yoe := y - era*400
	mp := m + 9
	if m > 2 {
		mp = m - 3
	}
	doy := (153*mp+2)/5 + d - 1
	doe := yoe*365 + yoe/4 - yoe/100 + doy
	return era*146097 + doe - 719468
}

func civilFromDays(z int64) (y, m, d int64) {
	z += 719468
	era := floorDiv(z, 146097)
	doe := z - era*146097
	yoe := (doe - doe/1460 + doe/36524 - doe/146096) / 365
	y = yoe + era*400
	doy := doe - (365*yoe + yoe/4 - yoe/100)
	mp := (5*doy + 2) / 153
	d = doy - (153*mp+2)/5 + 1
	if mp < 10 {
		m = mp + 3
	} else {
		m = mp - 9
	}
	if m <= 2 {
		y++
	}
	return
}

// normalise carries out-of-range months and days: the civil day number of (y, m, d).
func normalisedDays(y, m, d int64) int64 {
	m0 := m - 1
	y += floorDiv(m0, 12)
	m = floorMod(m0, 12) + 1
	return daysFromCivil(y, m, 1) + (d - 1)
}

type civilFields struct {
	Y, M, D, h, m, s, wd int64
	nsec              int64
	offset            int64
}

func offsetAt(unix int64, loc *time.Location) int64 {
	_, off := time.Unix(unix, 0).In(loc).Zone()
	return int64(off)
}

// fieldsOf gives the civil fields of an instant in a zone.
func civilOf(t time.Time) civilFields {
	off := offsetAt(t.Unix(), t.Location())
	local := t.Unix() + off
	days := floorDiv(local, 86400)
	sod := floorMod(local, 86400)
	var f civilFields
	f.Y, f.M, f.D = civilFromDays(days)
	f.h, f.m, f.s = sod/3600, sod%3600/60, sod%60
	f.wd = floorMod(days+4, 7) // 1970-01-01 was a Thursday; Sunday = 0
	f.nsec = int64(t.Nanosecond())
	f.offset = off
	return f
}

// resolveLocal: the instants (unix seconds) that are acceptable readings of
// the local wall-clock second g (seconds since 1970-01-01 00:00 counted as if
// the zone were UTC) in loc. Normally one; two when the wall time is ambiguous;
// when it does not exist (a gap) either adjacent offset is accepted, as Go
// documents for time.Date.
func resolveLocal(g int64, loc *time.Location) []int64 {
	seen := map[int64]bool{}
	var offs []int64
	for dx := int64(-15 * 3600); dx <= 15*3600; dx += 900 {
		o := offsetAt(g+dx, loc)
		if !seen[o] {
			seen[o] = true
			offs = append(offs, o)
		}
	}
	var exact, any []int64
	for _, o := range offs {
		u := g - o
		any = append(any, u)
		if offsetAt(u, loc) == o {
			exact = append(exact, u)
		}
	}
	if len(exact) > 0 {
		return exact
	}
	return any
}

func containsInt64(xs []int64, x int64) bool {
	for _, v := range xs {
		if v == x {
			return true
		}
	}
	return false
}

func pad(n int64, w int) string {
	s := strconv.FormatInt(n, 10)
	neg := false
	if n < 0 {
		neg = true
		s = s[1:]
	}
	for len(s) < w {
		s = "0" + s
	}
	if neg {
		s = "-" + s
	}
	return s
}

// layouts the oracle can render independently (numeric fields only)
var numericLayouts = []string{
	"2006-01-02 15:04:05",
	"2006/1/2 15:4:5",
	"02.01.06",
	"15:04:05.000",
	"2006-01-02T15:04:05-07:00",
	"20060102",
	"1-2 15h",
	// layouts with names, the 12-hour clock, fractions, day of year and other zone forms
	"Mon Jan 2 2006",
	"Monday, January 02, 2006",
	"3:04PM",
	"03:04:05 pm",
	"2006-01-02T15:04:05.000000000",
	"2006-01-02T15:04:05Z07:00",
	"Jan _2",
	"2006-002",
	"-0700",
}

var monthNames = []string{"January", "February", "March", "April", "May", "June", "July", "August", "September", "October", "November", "December"}
var dayNames = []string{"Sunday", "Monday", "Tuesday", "Wednesday", "Thursday", "Friday", "Saturday"}

func renderLayout(layout string, t time.Time) (string, bool) {
	f := civilOf(t)
	if f.Y < 0 || f.Y > 9999 {
		return "", false // Go's rendering of such years is its own business
	}
	off := f.offset
	sign := "+"
	if off < 0 {
		sign = "-"
		off = -off
	}
	zone := sign + pad(off/3600, 2) + ":" + pad(off%3600/60, 2)
	if f.offset%60 != 0 {
		return "", false // zones with second offsets: layout -07:00 truncates; skip
	}
	switch layout {
	case "2006-01-02 15:04:05":
		return pad(f.Y, 4) + "-" + pad(f.M, 2) + "-" + pad(f.D, 2) + " " + pad(f.h, 2) + ":" + pad(f.m, 2) + ":" + pad(f.s, 2), true
	case "2006/1/2 15:4:5":
		return pad(f.Y, 4) + "/" + pad(f.M, 1) + "/" + pad(f.D, 1) + " " + pad(f.h, 2) + ":" + pad(f.m, 1) + ":" + pad(f.s, 1), true
	case "02.01.06":
		return pad(f.D, 2) + "." + pad(f.M, 2) + "." + pad(f.Y%100, 2), true
	case "15:04:05.000":
		return pad(f.h, 2) + ":" + pad(f.m, 2) + ":" + pad(f.s, 2) + "." + pad(f.nsec/1000000, 3), true
	case "2006-01-02T15:04:05-07:00":
		return pad(f.Y, 4) + "-" + pad(f.M, 2) + "-" + pad(f.D, 2) + "T" + pad(f.h, 2) + ":" + pad(f.m, 2) + ":" + pad(f.s, 2) + zone, true
	case "20060102":
		return pad(f.Y, 4) + pad(f.M, 2) + pad(f.D, 2), true
	case "1-2 15h":
		return pad(f.M, 1) + "-" + pad(f.D, 1) + " " + pad(f.h, 2) + "h", true
	}
	mon, wd := monthNames[f.M-1], dayNames[f.wd]
	h12 := f.h % 12
	if h12 == 0 {
		h12 = 12
	}
	half := "AM"
	if f.h >= 12 {
		half = "PM"
	}
	switch layout {
	case "Mon Jan 2 2006":
		return wd[:3] + " " + mon[:3] + " " + pad(f.D, 1) + " " + pad(f.Y, 4), true
	case "Monday, January 02, 2006":
		return wd + ", " + mon + " " + pad(f.D, 2) + ", " + pad(f.Y, 4), true
	case "3:04PM":
		return pad(h12, 1) + ":" + pad(f.m, 2) + half, true
	case "03:04:05 pm":
		return pad(h12, 2) + ":" + pad(f.m, 2) + ":" + pad(f.s, 2) + " " + strings.ToLower(half), true
	case "2006-01-02T15:04:05.000000000":
		return pad(f.Y, 4) + "-" + pad(f.M, 2) + "-" + pad(f.D, 2) + "T" + pad(f.h, 2) + ":" + pad(f.m, 2) + ":" + pad(f.s, 2) + "." + pad(f.nsec, 9), true
	case "2006-01-02T15:04:05Z07:00":
		z := zone
		if f.offset == 0 {
			z = "Z"
		}
		return pad(f.Y, 4) + "-" + pad(f.M, 2) + "-" + pad(f.D, 2) + "T" + pad(f.h, 2) + ":" + pad(f.m, 2) + ":" + pad(f.s, 2) + z, true
	case "Jan _2":
		d := pad(f.D, 1)
		if len(d) < 2 {
			d = " " + d
		}
		return mon[:3] + " " + d, true
	case "2006-002":
		return pad(f.Y, 4) + "-" + pad(daysFromCivil(f.Y, f.M, f.D)-daysFromCivil(f.Y, 1, 1)+1, 3), true
	case "-0700":
		return sign + pad(off/3600, 2) + pad(off%3600/60, 2), true
	}
	return "", false
}

// zoneTransitions: the instants (unix seconds) between 1900 and 2038 at which the
// UTC offset of a zone changes, found by scanning Go's own zone data. Used only
// to aim operations at the interesting days; it is not part of any oracle.
var transitionCache = map[string][]int64{}

func zoneTransitions(loc *time.Location) []int64 {
	key := loc.String()
	if t, ok := transitionCache[key]; ok {
		return t
	}
	var out []int64
	const step = 6 * 3600
	start := int64(-2208988800) // 1900-01-01
	end := int64(2145916800)    // 2038-01-01
	prev := offsetAt(start, loc)
	for u := start + step; u <= end; u += step {
		o := offsetAt(u, loc)
		if o != prev {
			lo, hi := u-step, u
			for hi-lo > 1 {
				mid := lo + (hi-lo)/2
				if offsetAt(mid, loc) == prev {
					lo = mid
				} else {
					hi = mid
				}
			}
			out = append(out, hi)
			prev = o
		}
	}
	transitionCache[key] = out
	return out
}
