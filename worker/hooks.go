package main

import (
	"strconv"
	"time"

	"github.com/aundis/formula/simhook"
)

// ---------------------------------------------------------------- map order

// Each op of each task gets its own permutation stream, derived by hashing
// (run seed, task, op index), so that the permutations one op sees are the
// same in the sequential and in the concurrent phase of a run.
var (
	permStates  [maxTasks + 1]uint64
	permSeqSlot = maxTasks
	permCalls   int64
	permOff     bool
)

//go:norace
func permSlot() int {
	if s := curSched; s != nil && s.active && s.token >= 0 && !s.ambient {
		return s.token
	}
	return permSeqSlot
}

//go:norace
func permReseed(slot int, seed uint64) { permStates[slot] = seed }

//go:norace
func permHook(n int) []int {
	p := make([]int, n)
	for i := range p {
		p[i] = i
	}
	if permOff {
		return p
	}
	permCalls++
	st := &permStates[permSlot()]
	for i := n - 1; i > 0; i-- {
		j := int(splitmix(st) % uint64(i+1))
		p[i], p[j] = p[j], p[i]
	}
	return p
}

// ---------------------------------------------------------------- clock

// SimClock is the only clock the code under test can read.
type SimClock struct {
	now    time.Time
	reads  int64
	onRead func(c *SimClock) // advances the clock after a read, as the run's plan says
	lo, hi time.Time         // least / greatest value returned since resetBracket
	any    bool
}

var simClock = &SimClock{now: time.Date(2024, 5, 17, 10, 30, 0, 0, time.UTC)}
var clockMin, clockMax time.Time

func (c *SimClock) resetBracket() { c.any = false }

//go:norace
func nowHook() time.Time {
	c := simClock
	t := c.now.In(time.Local) // like time.Now: the instant, presented in the process zone
	c.reads++
	if !c.any || t.Before(c.lo) {
		c.lo = t
	}
	if !c.any || t.After(c.hi) {
		c.hi = t
	}
	c.any = true
	if clockMin.IsZero() || t.Before(clockMin) {
		clockMin = t
	}
	if clockMax.IsZero() || t.After(clockMax) {
		clockMax = t
	}
	if c.onRead != nil {
		c.onRead(c)
	}
	return t
}

var loadLocCalls, loadLocErrors int64

func installHooks() {
	simhook.PermHook = permHook
	simhook.NowHook = nowHook
	simhook.LoadLocationHook = loadLocHook
}

//go:norace
func loadLocHook(name string, loc *time.Location, err error) {
	loadLocCalls++
	if err != nil {
		loadLocErrors++
	}
}

func finishChunk(res *ChunkResult) {
	if !clockMin.IsZero() {
		res.SimClockMin = clockMin.UTC().Format(time.RFC3339Nano)
		res.SimClockMax = clockMax.UTC().Format(time.RFC3339Nano)
	}
	if corpusBuilt {
		if res.Extra == nil {
			res.Extra = map[string]string{}
		}
		res.Extra["baseline_digest"] = strconv.FormatUint(corpusHash, 16)
		res.PerProcess = corpusDigest
		for i := range corpus {
			res.PerProcessQ = append(res.PerProcessQ, "corpus["+strconv.Itoa(i)+"] `"+corpus[i].Text+"` data "+specString(corpus[i].Spec))
		}
	}
	res.Faults["map_permute"] += permCalls
	res.Faults["pool_flush_at_handover"] += poolFlushes
}
