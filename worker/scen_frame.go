package main

import (
	"context"
	"strconv"
	"time"

	"github.com/aundis/formula"
)

// Frame condition of C07 over the broad grammar: whatever a formula does -
// including evaluations aborted by a failing host function at every call
// position - a deep snapshot of everything reachable from the caller's map
// through non-$ entries is identical before and after. Outcomes are ignored,
// panics are recovered and counted.

type frameSample struct {
	Mode     string   `json:"mode"`
	Spec     dataSpec `json:"data_spec"`
	Zone     string   `json:"zone"`
	Formulas []string `json:"formulas"`
	Faults   []string `json:"fault_positions_tried"`
}

func frameEval(r *formula.Runner, ctx context.Context, text string) (out string) {
	defer func() {
		if p := recover(); p != nil {
			out = panicOutcome(p)
		}
	}()
	src, err := formula.ParseSourceCode([]byte(text))
	if err != nil || src == nil {
		return "parse-error"
	}
	v, err := r.Resolve(ctx, src.Expression)
	return outcome(v, err)
}

func runFrame(rc *RunCtx) {
	wl := rc.tape.Stream("workload")
	fl := rc.tape.Stream("faults")
	nodes, depth, maxEval := 25, 6, 5
	if rc.thorough {
		nodes, depth, maxEval = 80, 12, 10
	}
	cfg := genCfg{maxNodes: nodes, maxDepth: depth, clockFns: true, hostFns: true, assign: true}
	spec := genDataSpec(wl)
	zn := zoneNames[wl.Intn(len(zoneNames))]
	loc := loadZone(zn)
	if loc == nil {
		rc.drop("zone_missing_in_sandbox")
		zn, loc = "UTC", time.UTC
	}
	saved := time.Local
	time.Local = loc
	defer func() { time.Local = saved }()
	simClock.now = time.Unix(int64(wl.Intn(4000000000)), 0).UTC()
	simClock.onRead = nil
	sample := &frameSample{Mode: "frame", Spec: spec, Zone: zn}
	ctx := context.Background()
	lg := &hostLog{}
	data := spec.build(lg, loc)
	r := formula.NewRunner()
	r.SetThis(data)
	n := 1 + wl.Intn(maxEval)
	var shape evHash
	aborted := 0
	for i := 0; i < n; i++ {
		text := genParsable(wl, cfg)
		sample.Formulas = append(sample.Formulas, text)
		// fresh state, no fault: how many host calls does it make?
		lg0 := &hostLog{}
		d0 := spec.build(lg0, loc)
		r0 := formula.NewRunner()
		r0.SetThis(d0)
		before0 := dataSnapshot(d0)
		out0 := frameEval(r0, ctx, text)
		shape.addString(out0)
		if len(out0) > 0 && out0[0] == 'P' {
			rc.probe("evaluation_panicked_outcome_ignored")
		}
		if after := dataSnapshot(d0); after != before0 {
			rc.violation("evaluation never modifies non-$ caller data", "caller-data-modified", "fresh state, `"+text+"` -> "+out0+": before {"+before0+"} after {"+after+"}")
		}
		calls := lg0.n
		// every single-fault position, each on fresh state
		for k := 1; k <= calls && k <= 6; k++ {
			lgk := &hostLog{failAt: k}
			dk := spec.build(lgk, loc)
			rk := formula.NewRunner()
			rk.SetThis(dk)
			bk := dataSnapshot(dk)
			outk := frameEval(rk, ctx, text)
			if lgk.fired > 0 {
				rc.fault("host_error")
				aborted++
				sample.Faults = append(sample.Faults, "`"+text+"` call "+strconv.Itoa(k))
				if len(outk) > 0 && outk[0] == 'V' {
					rc.violation("a returned error aborts evaluation with an error", "host-error-swallowed", "`"+text+"` with host call "+strconv.Itoa(k)+" failing returned a value: "+outk)
				}
			}
			if after := dataSnapshot(dk); after != bk {
				rc.violation("evaluation never modifies non-$ caller data", "caller-data-modified", "`"+text+"` aborted at host call "+strconv.Itoa(k)+" -> "+outk+": before {"+bk+"} after {"+after+"}")
			}
		}
		// the history runner: locals of earlier evaluations are present, fault position drawn
		lg.n, lg.failAt = 0, 0
		if calls > 0 && fl.Intn(3) == 0 {
			lg.failAt = 1 + fl.Intn(calls)
		}
		before := dataSnapshot(data)
		out := frameEval(r, ctx, text)
		shape.addString(out)
		if lg.fired > 0 {
			rc.fault("host_error")
			aborted++
			lg.fired = 0
		}
		if after := dataSnapshot(data); after != before {
			rc.violation("evaluation never modifies non-$ caller data", "caller-data-modified", "history runner, `"+text+"` -> "+out+": before {"+before+"} after {"+after+"}")
		}
	}
	if aborted > 0 {
		rc.probe("frame_checked_after_aborted_evaluation")
	}
	rc.probes["frame_evaluations"] += int64(n)
	rc.ev.add(shape.h)
	rc.sig = mix64(shape.h, 0xf4a3e)
	rc.nontriv = true
	rc.sample = sample
}
