package main

import (
	"math"
	"context"
	"errors"
	"reflect"
	"sort"
	"strconv"
	"strings"

	"github.com/aundis/formula"
	"github.com/ericlagergren/decimal"
)

// Scenario `sessions` (C07, C20): histories of operations on runners -
// replace the data map, set single entries, evaluate formulas that read and
// assign locals and call host functions (which may fail, and which may use the
// runner's auxiliary store mid-evaluation), store, fetch - refined op by op
// against runnerModel + the store-passing reference evaluator.

func init() { scenarios["sessions"] = runSessions }

func isFunc(v interface{}) bool {
	return v != nil && reflect.TypeOf(v).Kind() == reflect.Func
}

// implString renders an implementation value in the notation of MV.String().
func implString(v interface{}) string { return implStringD(v, 0) }

// implStringD stops at depth 40: a value that contains itself (a broken library can build one) must
// not take the harness down with it.
func implStringD(v interface{}, depth int) string {
	if depth > 40 {
		return "<nested deeper than 40>"
	}
	if isFunc(v) {
		return "fn"
	}
	switch x := v.(type) {
	case nil:
		return "null"
	case bool:
		return strconv.FormatBool(x)
	case string:
		return strconv.Quote(x)
	case *decimal.Big:
		if x == nil {
			return "nilBig"
		}
		if x.IsInt() {
			if i, ok := x.Int64(); ok {
				return strconv.FormatInt(i, 10)
			}
			return x.Int(nil).String() // beyond int64: all its digits
		}
		return "num:" + x.String()
	case float64:
		if x == float64(int64(x)) {
			return strconv.FormatInt(int64(x), 10)
		}
		if x == math.Trunc(x) && !math.IsInf(x, 0) { // whole, beyond int64: the digits of its shortest decimal form
			return strconv.FormatFloat(x, 'f', -1, 64)
		}
		return "f:" + strconv.FormatFloat(x, 'g', -1, 64)
	case int:
		return strconv.Itoa(x)
	case int64:
		return strconv.FormatInt(x, 10)
	case []interface{}:
		var p []string
		for _, e := range x {
			p = append(p, implStringD(e, depth+1))
		}
		return "[" + strings.Join(p, ",") + "]"
	case map[string]interface{}:
		keys := make([]string, 0, len(x))
		for k, e := range x {
			if !isFunc(e) {
				keys = append(keys, k)
			}
		}
		sort.Strings(keys)
		var p []string
		for _, k := range keys {
			p = append(p, k+":"+implStringD(x[k], depth+1))
		}
		return "{" + strings.Join(p, ",") + "}"
	case reflect.Value:
		return "reflect.Value"
	}
	return "go:" + reflect.TypeOf(v).String()
}

var sessNames = []string{"x", "y", "s", "flag", "o", "u"}
var sessLocals = []string{"$a", "$b", "$c", "$"} // "$" alone is a $-prefixed name too
var sessKeysBase = []string{"k1", "k2", "x", "$a", "user", "user.name", "v1.2", ""}
var sessKeys = sessKeysBase // per run: in a quarter of the runs 4-60 further keys (drawNames)
var sessStrings = []string{"a", "b", "ab", "k1", "", "zz", "a b", " ", "héllo", "小明", "true", "null", "$a", "x", "A"}
var sessStubs = []string{"rec", "put", "get", "fail", "pair", "cat", "poke", "inc", "evk"}

// ---------------------------------------------------------------- harness side of one runner

type sessRunner struct {
	id      int
	r       *formula.Runner
	ctx     context.Context
	m       *runnerModel
	cur     map[string]interface{} // the caller's map last handed to SetThis (nil: none / SetThisValue-created)
	log     []string
	calls   int
	faultAt int
	fired   int
	st      *Stream
	fl      *Stream
	flavour int
	viol    []Violation
	hist    []string
	ops     int
	evals   int
	relaxed int
	shadow  int
	prop    string
	rc      *RunCtx
	tc      *treeCache
	nResolve int
	inner    map[int]string // formulas that the host function evk evaluates on this runner, by number
	last     *MNode // the formula of the previous EVAL, to be evaluated again on the same tree
	lastText string
	again    bool
	pool    []*callerMap // maps this caller handed to the runner before and may hand over again
}

// callerMap: a data map object owned by the caller. A Go map is a reference: the
// model keeps the same object too, so locals written while it was the runner's
// map are still in it when the caller hands it over again, and entries the
// caller writes into it directly are seen by the next evaluation.
type callerMap struct {
	g     map[string]interface{}
	m     map[string]MV
	stubs map[string]bool
}

func (sr *sessRunner) violation(oracle, class, detail string) {
	if len(sr.viol) < 4 {
		sr.viol = append(sr.viol, Violation{Property: sr.prop, Oracle: oracle, Class: class, Detail: detail + " | history of runner " + strconv.Itoa(sr.id) + ": " + strings.Join(sr.hist, " ; ")})
	}
}

func (sr *sessRunner) enter(name string, args ...interface{}) error {
	var p []string
	for _, a := range args {
		p = append(p, implString(a))
	}
	sr.calls++
	sr.log = append(sr.log, name+"("+strings.Join(p, ",")+")")
	if sr.faultAt != 0 && sr.calls == sr.faultAt {
		sr.fired++
		return errInjected
	}
	return nil
}

// stubs builds the host functions for a data map of this runner.
func (sr *sessRunner) stubs(into map[string]interface{}, names map[string]bool) {
	if names["rec"] {
		into["rec"] = func(v interface{}) (interface{}, error) {
			if err := sr.enter("rec", v); err != nil {
				return nil, err
			}
			return v, nil
		}
	}
	if names["fail"] {
		into["fail"] = func(v interface{}) (interface{}, error) {
			sr.enter("fail", v)
			return nil, errors.New("always fails")
		}
	}
	if names["pair"] {
		into["pair"] = func(a, b interface{}) (interface{}, error) {
			if err := sr.enter("pair", a, b); err != nil {
				return nil, err
			}
			return []interface{}{a, b}, nil
		}
	}
	if names["cat"] {
		into["cat"] = func(a interface{}, rest ...interface{}) (interface{}, error) {
			all := append([]interface{}{a}, rest...)
			if err := sr.enter("cat", all...); err != nil {
				return nil, err
			}
			return all, nil
		}
	}
	if names["poke"] {
		into["poke"] = func(m interface{}, k string, v interface{}) (interface{}, error) {
			if err := sr.enter("poke", k, v); err != nil {
				return nil, err
			}
			mm, ok := m.(map[string]interface{})
			if !ok || mm == nil {
				return nil, errors.New("poke: no map")
			}
			mm[k] = v
			return v, nil
		}
	}
	if names["inc"] {
		// a typed parameter: what cannot be converted to an int is an error and no call
		into["inc"] = func(n int) (interface{}, error) {
			if err := sr.enter("inc", n); err != nil {
				return nil, err
			}
			return n + 1, nil
		}
	}
	if names["evk"] {
		// evaluates another formula on the same runner while the calling evaluation is under way
		into["evk"] = func(ctx context.Context, k int) (interface{}, error) {
			if err := sr.enter("evk", k); err != nil {
				return nil, err
			}
			r := formula.RunnerFromCtx(ctx)
			text, ok := sr.inner[k]
			if r == nil || !ok {
				return nil, errors.New("evk: no runner or no such formula")
			}
			src, perr := formula.ParseSourceCode([]byte("[" + text + "]")) // inside an array numbers keep all their digits
			if perr != nil || src == nil {
				return nil, errors.New("evk: inner formula does not parse: " + errText(perr))
			}
			v, err := r.Resolve(ctx, src.Expression)
			if err != nil {
				return nil, err
			}
			arr, isArr := v.([]interface{})
			if !isArr || len(arr) != 1 {
				return nil, errors.New("evk: inner evaluation did not return a one-element array")
			}
			return arr[0], nil
		}
	}
	if names["put"] {
		into["put"] = func(ctx context.Context, k string, v interface{}) (interface{}, error) {
			if err := sr.enter("put", k, v); err != nil {
				return nil, err
			}
			r := formula.RunnerFromCtx(ctx)
			if r == nil {
				return nil, errors.New("no runner in ctx")
			}
			r.Set(k, v)
			return v, nil
		}
	}
	if names["get"] {
		into["get"] = func(ctx context.Context, k string) (interface{}, error) {
			if err := sr.enter("get", k); err != nil {
				return nil, err
			}
			r := formula.RunnerFromCtx(ctx)
			if r == nil {
				return nil, errors.New("no runner in ctx")
			}
			return r.Get(k), nil
		}
	}
}

// goMap builds a fresh caller map from a model state.
func (sr *sessRunner) goMap(m *runnerModel) map[string]interface{} {
	out := map[string]interface{}{}
	sr.stubs(out, m.stubs)
	fnResolve = func(name string) interface{} { return out[name] } // a local may hold one of the map's own functions
	for k, v := range m.this {
		out[k] = v.toGo(sr.flavour + len(k))
	}
	fnResolve = nil
	return out
}

// dataSnapshot renders every non-$ non-function entry reachable from the caller's map.
func dataSnapshot(m map[string]interface{}) string {
	if m == nil {
		return "<nil>"
	}
	keys := make([]string, 0, len(m))
	for k, v := range m {
		if strings.HasPrefix(k, "$") || isFunc(v) {
			continue
		}
		keys = append(keys, k)
	}
	sort.Strings(keys)
	var b strings.Builder
	for _, k := range keys {
		b.WriteString(k + "=")
		renderInto(&b, m[k], 0)
		b.WriteString(";")
	}
	return b.String()
}

func (sr *sessRunner) resolve(text string) (v interface{}, err error, pan interface{}, perr error) {
	defer func() {
		if p := recover(); p != nil {
			pan = p
		}
	}()
	sr.nResolve++
	var src *formula.SourceCode
	var e error
	if sr.tc != nil {
		src, e = sr.tc.parse(text, sr.nResolve%2 == 0 || sr.again)
	} else {
		src, e = formula.ParseSourceCode([]byte(text))
	}
	if e != nil || src == nil {
		return nil, nil, nil, errors.New("parse: " + errText(e))
	}
	v, err = sr.r.Resolve(sr.ctx, src.Expression)
	return
}

func errText(e error) string {
	if e == nil {
		return "<nil>"
	}
	return e.Error()
}

// checkAux compares the auxiliary store with the model for every key of the key set.
func (sr *sessRunner) checkAux(m *runnerModel, r *formula.Runner, when string) {
	for _, k := range sessKeys {
		var got interface{}
		sr.api("Get("+k+")", func() { got = r.Get(k) })
		want, ok := m.aux[k]
		if !ok {
			want = mNull()
		}
		if !matches(want, got) {
			sr.violation("auxiliary store equals model", "aux-differs", when+": Get("+k+") = "+implString(got)+", model "+want.String())
		}
	}
}

// ---------------------------------------------------------------- generation (stateful: evaluates while it generates)

const (
	wAny = iota
	wNum
	wStr
	wBool
)

type mgen struct {
	s        *Stream
	m        *runnerModel // working copy: the state at this point of the evaluation order
	budget   int
	depth    int
	nullArgs bool
	bad      bool
	dead     bool // an erroring node was emitted: nothing generated after it is ever evaluated
	nInner   int  // formulas handed to evk so far
}

func lit(v MV) *MNode { return &MNode{Op: nLit, V: v} }

func (g *mgen) namesOfKind(k mKind) []string {
	var out []string
	if !g.m.hasThis {
		return nil
	}
	for _, n := range append(append([]string{}, sessNames...), sessLocals...) {
		if v, ok := g.m.this[n]; ok && v.K == k {
			out = append(out, n)
		}
	}
	return out
}

func (g *mgen) auxOfKind(k mKind) []string {
	var out []string
	for _, key := range sessKeys {
		if v, ok := g.m.aux[key]; ok && v.K == k {
			out = append(out, key)
		}
	}
	return out
}

func (g *mgen) has(stub string) bool { return g.m.hasThis && g.m.stubs[stub] }

func kindOf(want int) mKind {
	switch want {
	case wNum:
		return mkNum
	case wStr:
		return mkStr
	case wBool:
		return mkBool
	}
	return mkNull
}

func nameNode(nm string) *MNode {
	if strings.HasPrefix(nm, "$") {
		return &MNode{Op: nLocal, Name: nm}
	}
	return &MNode{Op: nName, Name: nm}
}

func (g *mgen) leaf(want int) (*MNode, MV) {
	if want == wAny {
		switch g.s.Intn(8) {
		case 7: // a 43-digit integer: more than any fixed-precision context keeps
			if g.s.Bool(1, 2) {
				// numbers that differ only in their trailing zeros: equal under Cmp, not the same value
				// (a store that is skipped "because nothing changes" keeps the old number of decimals)
				v := MV{K: mkDec, S: []string{"1.10", "1.1", "1.100", "2.50", "2.5", "0.50", "0.5"}[g.s.Intn(7)]}
				return lit(v), v
			}
			v := MV{K: mkBig, S: []string{"1234567890123456789012345678901234567890123", "9999999999999999999999999999999999999999999991"}[g.s.Intn(2)]}
			return lit(v), v
		case 0:
			return lit(mNull()), mNull()
		case 1: // possibly unset: null
			nm := sessLocals[g.s.Intn(len(sessLocals))]
			return nameNode(nm), g.m.lookup(nm)
		case 2: // possibly absent: null
			nm := sessNames[g.s.Intn(len(sessNames))]
			return nameNode(nm), g.m.lookup(nm)
		default:
			want = 1 + g.s.Intn(3)
		}
	}
	opts := g.namesOfKind(kindOf(want))
	if len(opts) > 0 && g.s.Bool(1, 2) {
		nm := opts[g.s.Intn(len(opts))]
		return nameNode(nm), g.m.lookup(nm)
	}
	var v MV
	switch want {
	case wNum:
		v = mNum(int64(g.s.Intn(40)))
		if g.s.Intn(12) == 0 { // integers a float64 cannot hold
			v = mNum([]int64{9007199254740993, 123456789012345679, 4611686018427387905}[g.s.Intn(3)])
		}
	case wStr:
		v = mStr(sessStrings[g.s.Intn(len(sessStrings))])
	default:
		v = mBool(g.s.Bool(1, 2))
	}
	return lit(v), v
}

// build returns a node and the value it has when evaluated at this point of
// the evaluation order (absent faults); its effects are applied to g.m.
func (g *mgen) build(want int, d int) (*MNode, MV) {
	g.budget--
	if g.budget <= 0 || d >= g.depth {
		return g.leaf(want)
	}
	if want == wAny && g.s.Bool(1, 2) {
		want = 1 + g.s.Intn(3)
	}
	choice := g.s.Intn(12)
	switch {
	case choice == 0 && g.has("poke") && g.s.Intn(4) == 0:
		// the host binds a local itself, through the map that `this` hands it
		rhs, v := g.build(want, d+1)
		nm := sessLocals[g.s.Intn(len(sessLocals))]
		g.m.setEntry(nm, v)
		return &MNode{Op: nCall, Name: "poke", Kids: []*MNode{{Op: nThis}, lit(mStr(nm)), rhs}}, v
	case choice == 0: // assignment: has the value of its right-hand side
		rhs, v := g.build(want, d+1)
		n := &MNode{Op: nAssign, Name: sessLocals[g.s.Intn(len(sessLocals))], Kids: []*MNode{rhs}}
		g.m.setEntry(n.Name, v)
		return n, v
	case choice == 1: // comma inside parentheses: left for effect, right for value
		l, _ := g.build(wAny, d+1)
		r, v := g.build(want, d+1)
		return &MNode{Op: nParen, Kids: []*MNode{{Op: nComma, Kids: []*MNode{l, r}}}}, v
	case choice == 2: // conditional on a boolean: only the selected branch is evaluated
		c, cv := g.build(wBool, d+1)
		var t, f *MNode
		var v MV
		savedM, savedDead := g.m, g.dead
		if cv.K == mkBool && cv.B {
			t, v = g.build(want, d+1)
			liveM, liveDead := g.m, g.dead
			g.m, g.dead = savedM.clone(), savedDead
			f, _ = g.build(want, d+1)
			g.m, g.dead = liveM, liveDead
		} else {
			g.m = savedM.clone()
			t, _ = g.build(want, d+1)
			g.m, g.dead = savedM, savedDead
			f, v = g.build(want, d+1)
		}
		return &MNode{Op: nCond, Kids: []*MNode{c, t, f}}, v
	case choice == 3 && g.has("rec"): // recording host function: identity
		a, v := g.build(want, d+1)
		if v.K == mkNull && !g.nullArgs {
			return a, v
		}
		return &MNode{Op: nCall, Name: "rec", Kids: []*MNode{a}}, v
	case choice == 4 && want == wNum && g.s.Intn(40) == 0:
		// calls nested far deeper than anybody writes by hand (a generated formula), next to a sibling call
		a, av := g.build(wNum, d+1)
		if av.N < 0 {
			av.N = -av.N
		}
		depth := []int{65, 130, 300, 520, 600, 1100}[g.s.Intn(6)]
		n := a
		for i := 0; i < depth; i++ {
			n = &MNode{Op: nCall, Name: "abs", Kids: []*MNode{n}}
		}
		b, bv := g.build(wNum, d+1)
		if bv.N < 0 {
			bv.N = -bv.N
		}
		best := av
		if bv.N > av.N {
			best = bv
		}
		return &MNode{Op: nCall, Name: "max", Kids: []*MNode{n, {Op: nCall, Name: "abs", Kids: []*MNode{b}}}}, best
	case choice == 4 && want == wNum && g.s.Intn(5) == 0: // a builtin: needs no data map, arguments left to right
		a, av := g.build(wNum, d+1)
		if g.s.Bool(1, 2) {
			if av.N < 0 {
				av.N = -av.N
			}
			return &MNode{Op: nCall, Name: "abs", Kids: []*MNode{a}}, av
		}
		b, bv := g.build(wNum, d+1)
		best := av
		if bv.N > av.N {
			best = bv
		}
		return &MNode{Op: nCall, Name: "max", Kids: []*MNode{a, b}}, best
	case choice == 4 && want == wNum:
		if g.s.Intn(4) == 0 { // unary minus of a small integer
			a, av := g.build(wNum, d+1)
			if av.N > 1<<40 || av.N < -(1<<40) {
				return a, av
			}
			return &MNode{Op: nNeg, Kids: []*MNode{a}}, mNum(-av.N)
		}
		a, av := g.build(wNum, d+1)
		b, bv := g.build(wNum, d+1)
		if av.N > 1<<20 || av.N < -(1<<20) || bv.N > 1<<20 || bv.N < -(1<<20) {
			if av.N > 1<<60 || av.N < -(1<<60) || bv.N > 1<<60 || bv.N < -(1<<60) {
				// too big for the model's int64 arithmetic: evaluate both, in order, keep the right one
				return &MNode{Op: nParen, Kids: []*MNode{{Op: nComma, Kids: []*MNode{a, b}}}}, bv
			}
			return &MNode{Op: nAdd, Kids: []*MNode{a, b}}, mNum(av.N + bv.N)
		}
		switch g.s.Intn(4) {
		case 0:
			return &MNode{Op: nSub, Kids: []*MNode{a, b}}, mNum(av.N - bv.N)
		case 1:
			return &MNode{Op: nMul, Kids: []*MNode{a, b}}, mNum(av.N * bv.N)
		}
		return &MNode{Op: nAdd, Kids: []*MNode{a, b}}, mNum(av.N + bv.N)
	case choice == 4 && want == wBool:
		k := 1 + g.s.Intn(3)
		a, av := g.build(k, d+1)
		b, bv := g.build(k, d+1)
		return &MNode{Op: nEq3, Kids: []*MNode{a, b}}, mBool(av.equal(bv))
	case choice == 5:
		n, v := g.build(want, d+1)
		return &MNode{Op: nParen, Kids: []*MNode{n}}, v
	case choice == 6 && want == wAny && g.s.Intn(12) == 0:
		// an array literal far longer than anybody writes by hand, with a few elements that do something
		cnt := []int{63, 64, 65, 66, 70, 127, 128, 129, 130, 200, 257, 300}[g.s.Intn(12)]
		dyn := map[int]bool{cnt - 1: true, cnt - 2: true, g.s.Intn(cnt): true, 64 % cnt: true}
		arr := &MNode{Op: nArray}
		vals := []MV{}
		for i := 0; i < cnt; i++ {
			if dyn[i] {
				k, v := g.build(wAny, d+1)
				arr.Kids = append(arr.Kids, k)
				vals = append(vals, v)
				continue
			}
			v := mNum(int64(i % 10))
			arr.Kids = append(arr.Kids, lit(v))
			vals = append(vals, v)
		}
		return arr, mArr(vals)
	case choice == 6 && want == wAny: // array literal: elements left to right
		cnt := g.s.Intn(4)
		arr := &MNode{Op: nArray}
		vals := []MV{}
		for i := 0; i < cnt; i++ {
			k, v := g.build(wAny, d+1)
			arr.Kids = append(arr.Kids, k)
			vals = append(vals, v)
		}
		return arr, mArr(vals)
	case choice == 7 && g.has("put"): // host function writing the auxiliary store mid-evaluation
		vn, v := g.build(want, d+1)
		if v.K == mkNull && !g.nullArgs {
			return vn, v
		}
		key := sessKeys[g.s.Intn(len(sessKeys))]
		if !g.dead {
			g.m.aux[key] = v
		}
		return &MNode{Op: nCall, Name: "put", Kids: []*MNode{lit(mStr(key)), vn}}, v
	case choice == 8 && g.has("get"):
		var keys []string
		if want == wAny {
			keys = sessKeys
		} else {
			keys = g.auxOfKind(kindOf(want))
		}
		if len(keys) == 0 {
			return g.leaf(want)
		}
		key := keys[g.s.Intn(len(keys))]
		v, ok := g.m.aux[key]
		if !ok {
			v = mNull()
		}
		return &MNode{Op: nCall, Name: "get", Kids: []*MNode{lit(mStr(key))}}, v
	case choice == 9 && g.has("rec") && g.s.Intn(5) == 0:
		// a function bound to a local and called through it; an argument may rebind the local - the
		// callee was read before that
		nm := sessLocals[g.s.Intn(len(sessLocals))]
		bind := &MNode{Op: nAssign, Name: nm, Kids: []*MNode{{Op: nName, Name: "rec"}}}
		g.m.setEntry(nm, MV{K: mkFn, S: "rec"}) // in evaluation order: the binding comes first
		var arg *MNode
		var v MV
		if g.has("fail") && g.s.Bool(1, 2) {
			rebind := &MNode{Op: nAssign, Name: nm, Kids: []*MNode{{Op: nName, Name: "fail"}}}
			g.m.setEntry(nm, MV{K: mkFn, S: "fail"})
			arg, v = g.build(want, d+1)
			arg = &MNode{Op: nParen, Kids: []*MNode{{Op: nComma, Kids: []*MNode{rebind, arg}}}}
		} else {
			arg, v = g.build(want, d+1)
		}
		call := &MNode{Op: nCall, Name: nm, Kids: []*MNode{arg}}
		return &MNode{Op: nParen, Kids: []*MNode{{Op: nComma, Kids: []*MNode{bind, call}}}}, v
	case choice == 9 && g.has("evk") && g.s.Intn(3) == 0:
		// a host function that evaluates another formula on this very runner, in the middle of this one
		inner, v := g.build(want, d+1)
		k := g.nInner
		g.nInner++
		return &MNode{Op: nCall, Name: "evk", Kids: []*MNode{lit(mNum(int64(k))), inner}}, v
	case (choice == 9 || choice == 10 || choice == 5) && want == wNum && g.has("inc") && g.s.Bool(1, 2):
		if g.bad && g.s.Intn(3) == 0 { // an argument that cannot be converted: an error, and no call
			g.bad = false
			g.dead = true
			badArgs := []*MNode{lit(mBool(true)), lit(mStr("ab")), lit(mStr("héllo")), {Op: nArray, Kids: []*MNode{lit(mNum(1))}}}
			return &MNode{Op: nCall, Name: "inc", Kids: []*MNode{badArgs[g.s.Intn(len(badArgs))]}}, mNull()
		}
		a, av := g.build(wNum, d+1)
		if av.K != mkNum || av.N > 1<<52 || av.N < -(1<<52) {
			return a, av
		}
		return &MNode{Op: nCall, Name: "inc", Kids: []*MNode{a}}, mNum(av.N + 1)
	case choice == 9 && want == wAny && g.has("cat") && g.has("poke") && g.s.Intn(4) == 0:
		// a local read on both sides of a host call that rebinds it
		nm := sessLocals[g.s.Intn(len(sessLocals))]
		before := g.m.lookup(nm)
		rhs, v := g.build(1+g.s.Intn(3), d+1)
		g.m.setEntry(nm, v)
		pk := &MNode{Op: nCall, Name: "poke", Kids: []*MNode{{Op: nThis}, lit(mStr(nm)), rhs}}
		return &MNode{Op: nCall, Name: "cat", Kids: []*MNode{nameNode(nm), pk, nameNode(nm)}}, mArr([]MV{before, v, v})
	case choice == 9 && want == wAny && g.has("cat") && g.s.Bool(1, 2):
		// a fixed parameter and a variadic tail; the tail is sometimes spread from an array literal
		a, av := g.build(1+g.s.Intn(3), d+1)
		var b *MNode
		var bv MV
		if g.s.Intn(3) == 0 { // the first argument binds a local that the tail reads
			nm := sessLocals[g.s.Intn(len(sessLocals))]
			a = &MNode{Op: nAssign, Name: nm, Kids: []*MNode{a}}
			g.m.setEntry(nm, av)
			b, bv = nameNode(nm), av
		} else {
			b, bv = g.build(1+g.s.Intn(3), d+1)
		}
		c, cv := g.build(1+g.s.Intn(3), d+1)
		if g.s.Bool(1, 2) {
			return &MNode{Op: nCall, Name: "cat", Raw: "spread", Kids: []*MNode{a, {Op: nArray, Kids: []*MNode{b, c}}}}, mArr([]MV{av, bv, cv})
		}
		return &MNode{Op: nCall, Name: "cat", Kids: []*MNode{a, b, c}}, mArr([]MV{av, bv, cv})
	case choice == 9 && want == wAny && g.has("pair"): // two arguments, evaluated left to right
		a, av := g.build(1+g.s.Intn(3), d+1)
		b, bv := g.build(1+g.s.Intn(3), d+1)
		return &MNode{Op: nCall, Name: "pair", Kids: []*MNode{a, b}}, mArr([]MV{av, bv})
	case (choice == 10 || choice == 3) && want == wBool && g.m.hasThis && g.m.this["tags"].K == mkArr && g.s.Bool(1, 2):
		// a builtin with a typed list parameter over a long list of the caller's
		it := []string{"vip", "t7", "new", "t39", "zz"}[g.s.Intn(5)]
		found := false
		for _, x := range g.m.this["tags"].A {
			if x.K == mkStr && x.S == it {
				found = true
			}
		}
		return &MNode{Op: nCall, Name: "includes", Kids: []*MNode{{Op: nName, Name: "tags"}, lit(mStr(it))}}, mBool(found)
	case choice == 10 && want != wAny:
		// member of a nested data map
		if o, ok := g.m.this["o"]; g.m.hasThis && ok && o.K == mkMap {
			for _, f := range []string{"a", "b", "c"} {
				if v, ok := o.M[f]; ok && v.K == kindOf(want) {
					return &MNode{Op: nSel, Name: f, Kids: []*MNode{{Op: nName, Name: "o"}}}, v
				}
			}
		}
		return g.leaf(want)
	case choice == 11 && g.bad && g.s.Bool(1, 3):
		g.bad = false // at most one per formula
		g.dead = true
		targets := []string{"x", "o.a", "$a.b", "($a)", "1", "[$a]", "'s'", "true", "this", "null", "nosuch", "$a.$b", "x$", "y$a", "u$1", "_$a", "flag$", "'$a'", "\"$b\"", "'$'", "'$total'"}
		return &MNode{Op: nBadAssign, Raw: targets[g.s.Intn(len(targets))], Kids: []*MNode{lit(mNum(int64(g.s.Intn(9))))}}, mNull()
	case choice == 11 && g.has("fail") && g.s.Bool(1, 4):
		g.dead = true
		return &MNode{Op: nCall, Name: "fail", Kids: []*MNode{lit(mNum(1))}}, mNull()
	}
	return g.leaf(want)
}

func genSessionFormula(s *Stream, m *runnerModel, maxNodes, maxDepth int, bad bool, nullArgs bool) *MNode {
	g := &mgen{s: s, m: m.clone(), budget: 1 + s.Intn(maxNodes), depth: 1 + s.Intn(maxDepth), bad: bad, nullArgs: nullArgs}
	parts := 1 + s.Intn(3)
	var root *MNode
	for i := 0; i < parts; i++ {
		var e *MNode
		if i < parts-1 && s.Bool(2, 3) {
			rhs, v := g.build(wAny, 1)
			e = &MNode{Op: nAssign, Name: sessLocals[s.Intn(len(sessLocals))], Kids: []*MNode{rhs}}
			g.m.setEntry(e.Name, v)
		} else {
			e, _ = g.build(wAny, 1)
		}
		if root == nil {
			root = e
		} else {
			root = &MNode{Op: nComma, Kids: []*MNode{root, e}}
		}
	}
	return root
}

// ---------------------------------------------------------------- operations

func (sr *sessRunner) randomValue(s *Stream) MV {
	if s.Intn(14) == 0 { // a whole float64 beyond the int64 range (its decimal expansion is exact)
		return MV{K: mkBig, N: 1, S: []string{"10000000000000000000", "9223372036854776000", "-10000000000000000000", "1000000000000000000000000"}[s.Intn(4)]} // written as the shortest decimal that reads back as the same float64
	}
	if s.Intn(14) == 0 { // integers a float64 cannot hold, handed over as Go int / int64 (or as a formula number)
		return mNum([]int64{9007199254740993, -9007199254740993, 123456789012345679, 9223372036854775807, -9223372036854775807}[s.Intn(5)]) // (the model is int64 arithmetic: it has no |MinInt64|)
	}
	switch s.Intn(6) {
	case 0:
		return mNum(int64(s.Intn(50)))
	case 1:
		return mStr(sessStrings[s.Intn(len(sessStrings))])
	case 2:
		return mBool(s.Bool(1, 2))
	case 3:
		return mNum(int64(1 + s.Intn(9)))
	case 4:
		return mStr("q")
	default:
		return mNum(int64(100 + s.Intn(900)))
	}
}

// api runs one call of the runner's API; the statement promises plain map /
// key-value-store behaviour, so a panic out of it is a violation, not a crash.
func (sr *sessRunner) api(what string, f func()) {
	defer func() {
		if p := recover(); p != nil {
			sr.violation("runner API behaves like a plain map plus a key-value store", "api-panic/"+strings.SplitN(what, "(", 2)[0], what+" panicked: "+stripAddrs(panicText(p)))
		}
	}()
	f()
}

func (sr *sessRunner) opSetThis(s *Stream) {
	sr.ops++
	if s.Intn(8) == 0 {
		sr.api("SetThis(nil)", func() { sr.r.SetThis(nil) })
		sr.cur = nil
		sr.m.hasThis, sr.m.this = false, nil
		sr.m.stubs = map[string]bool{}
		sr.hist = append(sr.hist, "SETTHIS(nil)")
		return
	}
	if len(sr.pool) > 0 && s.Intn(4) == 0 {
		// the caller hands over a map it has handed over before
		k := s.Intn(len(sr.pool))
		cm := sr.pool[k]
		sr.m.hasThis, sr.m.this, sr.m.stubs = true, cm.m, cm.stubs
		sr.cur = cm.g
		sr.api("SetThis(map)", func() { sr.r.SetThis(sr.cur) })
		sr.hist = append(sr.hist, "SETTHIS(again map#"+strconv.Itoa(k)+" now "+mMap(cm.m).String()+")")
		sr.rc.probe("same_map_object_handed_over_again")
		return
	}
	nm := &runnerModel{hasThis: true, this: map[string]MV{}, stubs: map[string]bool{}, aux: sr.m.aux}
	empty := s.Intn(10) == 0 // an empty, non-nil map is a map too
	for _, n := range sessNames {
		if empty {
			break
		}
		if n == "o" {
			if s.Bool(2, 3) {
				nm.this["o"] = mMap(map[string]MV{"a": mNum(int64(1 + s.Intn(9))), "b": mStr("ob"), "c": mBool(true)})
			}
			continue
		}
		if s.Bool(2, 3) {
			nm.this[n] = sr.randomValue(s)
		}
	}
	if !empty && s.Intn(3) == 0 { // a long list of the caller's, which the caller edits in place later on
		var tags []MV
		for i := 0; i < 40; i++ {
			tags = append(tags, mStr("t"+strconv.Itoa(i)))
		}
		nm.this["tags"] = mArr(tags)
	}
	for _, l := range sessLocals { // the new map may carry locals itself
		if !empty && s.Intn(5) == 0 {
			nm.this[l] = sr.randomValue(s)
		}
	}
	for _, st := range sessStubs {
		if !empty && s.Intn(8) != 0 {
			nm.stubs[st] = true
		}
	}
	sr.flavour = s.Intn(4)
	sr.m.hasThis, sr.m.this, sr.m.stubs = true, nm.this, nm.stubs
	sr.cur = sr.goMap(sr.m)
	if len(sr.pool) < 3 {
		sr.pool = append(sr.pool, &callerMap{g: sr.cur, m: nm.this, stubs: nm.stubs})
	}
	sr.hist = append(sr.hist, "SETTHIS(map#"+strconv.Itoa(len(sr.pool)-1)+" "+mMap(nm.this).String()+")")
	sr.api("SetThis(map)", func() { sr.r.SetThis(sr.cur) })
}

// opCallerWrite: the caller writes a non-$ entry directly into the map it handed over.
func (sr *sessRunner) opCallerWrite(s *Stream) {
	if sr.cur == nil || !sr.m.hasThis {
		return
	}
	sr.ops++
	key := sessNames[s.Intn(len(sessNames)-2)]
	v := sr.randomValue(s)
	sr.cur[key] = v.toGo(s.Intn(4))
	sr.m.this[key] = v
	sr.hist = append(sr.hist, "CALLER-WRITES("+key+","+v.String()+")")
	sr.rc.probe("caller_writes_into_its_map_between_operations")
}

// opCallerEditsList: the caller overwrites one element of a list inside the map it handed over.
func (sr *sessRunner) opCallerEditsList(s *Stream) {
	if sr.cur == nil || !sr.m.hasThis {
		return
	}
	lst, ok := sr.cur["tags"].([]interface{})
	mv, mok := sr.m.this["tags"]
	if !ok || !mok || mv.K != mkArr || len(lst) != len(mv.A) || len(lst) == 0 {
		return
	}
	sr.ops++
	i := s.Intn(len(lst))
	v := []string{"vip", "t7", "new", "t" + strconv.Itoa(i)}[s.Intn(4)]
	// the list is looked at before the edit and again after it
	look := &MNode{Op: nCall, Name: "includes", Kids: []*MNode{{Op: nName, Name: "tags"}, lit(mStr(v))}}
	lookText := look.text(cxTop)
	sr.hist = append(sr.hist, "EVAL(`"+lookText+"`)")
	sr.evals++
	sr.evalChecked(look, lookText, 0, false)
	defer func() {
		sr.hist = append(sr.hist, "EVAL(`"+lookText+"`)")
		sr.evals++
		sr.evalChecked(look, lookText, 0, false)
	}()
	lst[i] = v
	na := append([]MV{}, mv.A...)
	na[i] = mStr(v)
	sr.m.this["tags"] = mArr(na)
	sr.hist = append(sr.hist, "CALLER-EDITS(tags["+strconv.Itoa(i)+"],"+strconv.Quote(v)+")")
	sr.rc.probe("caller_edits_a_list_element_in_place_between_operations")
}

func (sr *sessRunner) opSetVal(s *Stream) {
	sr.ops++
	var key string
	if s.Bool(1, 2) {
		key = sessLocals[s.Intn(len(sessLocals))]
	} else {
		key = sessNames[s.Intn(len(sessNames)-2)] // x y s flag
	}
	v := sr.randomValue(s)
	gv := v.toGo(s.Intn(4))
	sr.hist = append(sr.hist, "SETVAL("+key+","+v.String()+")")
	sr.api("SetThisValue("+key+")", func() { sr.r.SetThisValue(key, gv) })
	if !sr.m.hasThis {
		sr.rc.probe("set_entry_on_runner_without_map")
	}
	sr.m.setEntry(key, v)
}

func (sr *sessRunner) opStore(s *Stream) {
	sr.ops++
	if len(sessKeys) > len(sessKeysBase) && s.Intn(3) == 0 {
		// fill the whole key set in order, overwrite one of the keys, read it back
		sr.hist = append(sr.hist, "STORE-ALL("+strconv.Itoa(len(sessKeys))+" keys)")
		for i, k := range sessKeys {
			k, v := k, mNum(int64(i))
			sr.api("Set("+k+")", func() { sr.r.Set(k, v.toGo(3)) })
			sr.m.aux[k] = v
		}
		sr.rc.probe("store_filled_with_many_keys")
		k := sessKeys[s.Intn(len(sessKeys))]
		v := sr.randomValue(s)
		sr.hist = append(sr.hist, "STORE("+k+","+v.String()+")")
		sr.api("Set("+k+")", func() { sr.r.Set(k, v.toGo(3)) })
		sr.m.aux[k] = v
		var got interface{}
		sr.api("Get("+k+")", func() { got = sr.r.Get(k) })
		if !matches(v, got) {
			sr.violation("fetch equals model", "fetch-differs", "Get("+k+") after the store was filled and the key overwritten = "+implString(got)+", model "+v.String())
		}
		return
	}
	k := sessKeys[s.Intn(len(sessKeys))]
	v := sr.randomValue(s)
	if k == "user" && s.Bool(1, 2) {
		v = mMap(map[string]MV{"name": mStr("tom"), "id": mNum(int64(s.Intn(9)))})
	}
	sr.hist = append(sr.hist, "STORE("+k+","+v.String()+")")
	sr.api("Set("+k+")", func() { sr.r.Set(k, v.toGo(3)) })
	sr.m.aux[k] = v
}

func (sr *sessRunner) opFetch(s *Stream) {
	sr.ops++
	k := sessKeys[s.Intn(len(sessKeys))]
	sr.hist = append(sr.hist, "FETCH("+k+")")
	var got interface{}
	sr.api("Get("+k+")", func() { got = sr.r.Get(k) })
	want, ok := sr.m.aux[k]
	if !ok {
		want = mNull()
	}
	if !matches(want, got) {
		sr.violation("fetch equals model", "fetch-differs", "Get("+k+") = "+implString(got)+", model "+want.String())
	}
}

// probeLocals reads every local and every data name through evaluation and compares with the model.
func (sr *sessRunner) probeLocals(when string) {
	for _, n := range append(append([]string{}, sessLocals...), sessNames[:4]...) {
		arr, err, pan, perr := sr.resolve("[" + n + "]") // inside an array numbers keep all their digits
		var v interface{}
		if a1, isArr := arr.([]interface{}); isArr && len(a1) == 1 {
			v = a1[0]
		} else if perr == nil && pan == nil && err == nil {
			err = errors.New("probe did not return a one-element array")
		}
		want := sr.m.lookup(n)
		if perr != nil || pan != nil || err != nil || !matches(want, v) {
			sr.violation("later evaluations see the current data map and locals", "read-differs", when+": evaluating `"+n+"` gave "+implString(v)+" err="+errText(err)+errText(perr)+", model "+want.String())
		}
	}
}

// evalOnce runs the formula on (runner r, model m) with the given fault position and checks everything the statements promise.
func (sr *sessRunner) evalChecked(n *MNode, text string, faultAt int, shadow bool) {
	tag := "EVAL"
	if shadow {
		tag = "SHADOW-EVAL(fault at call " + strconv.Itoa(faultAt) + ")"
	}
	sr.inner = map[int]string{}
	n.collectInner(sr.inner)
	before := dataSnapshot(sr.cur)
	env := &mEnv{m: sr.m, faultAt: faultAt}
	oldModel := sr.m.clone()
	wantV, wantErr := env.eval(n)
	if wantErr == errModelCond || wantErr == errModelType {
		// generator produced something the statements do not cover: machinery bug, fail loudly
		panic("model cannot evaluate its own formula: " + text + ": " + wantErr.Error())
	}
	sr.log, sr.calls, sr.faultAt = sr.log[:0], 0, faultAt
	v, err, pan, perr := sr.resolve(text)
	sr.faultAt = 0
	if faultAt != 0 && sr.calls >= faultAt {
		sr.rc.fault("host_error")
	}
	desc := tag + " `" + text + "`"
	if perr != nil {
		sr.violation("formula of the model grammar parses", "parse-failed", desc+": "+perr.Error())
		*sr.m = *oldModel
		return
	}
	if pan != nil {
		sr.violation("evaluation returns a value or an error", "panic", desc+": panic "+panicText(pan))
		*sr.m = *oldModel
		return
	}
	// host-visible order
	if strings.Join(sr.log, ";") != strings.Join(env.log, ";") {
		sr.violation("host functions observe left-to-right evaluation order", "host-order", desc+": host saw ["+strings.Join(sr.log, "; ")+"], model ["+strings.Join(env.log, "; ")+"]")
	}
	if (err != nil) != (wantErr != nil) {
		cls := "error-expected"
		if wantErr == errModelBadTarget {
			cls = "bad-target-accepted"
		}
		if wantErr == nil {
			cls = "unexpected-error"
		}
		sr.violation("value or error equals model", cls, desc+": got value "+implString(v)+" err="+errText(err)+", model value "+wantV.String()+" err="+errText(wantErr))
	} else if err == nil && !matches(wantV, v) {
		sr.violation("value equals model", "value-differs", desc+": got "+implString(v)+", model "+wantV.String())
	}
	// frame: the caller's data is untouched
	if after := dataSnapshot(sr.cur); after != before {
		sr.violation("evaluation never modifies non-$ caller data", "caller-data-modified", desc+": before {"+before+"} after {"+after+"}")
	}
	if wantErr != nil {
		// aborted evaluation: every local it had assigned may hold the old or the new value
		sr.relaxed++
		sr.rc.probe("aborted_evaluation")
		if len(env.assigned) > 0 {
			sr.rc.probe("aborted_evaluation_with_pending_locals")
		}
		final := map[string]bool{}
		for i := len(env.assigned) - 1; i >= 0; i-- {
			a := env.assigned[i]
			if final[a.name] {
				continue
			}
			final[a.name] = true
			// candidates: every value the local held during the evaluation, and the original
			cands := []MV{}
			orig := mNull()
			if oldModel.hasThis {
				if ov, ok := oldModel.this[a.name]; ok {
					orig = ov
				}
			}
			cands = append(cands, orig)
			for _, b := range env.assigned {
				if b.name == a.name {
					cands = append(cands, b.new)
				}
			}
			// read it inside an array: a top-level number comes back as float64, which cannot tell
			// 123456789012345713 from ...714
			gotArr, gerr, gpan, gperr := sr.resolve("[" + a.name + "]")
			var got interface{}
			if arr, isArr := gotArr.([]interface{}); isArr && len(arr) == 1 {
				got = arr[0]
			} else if gerr == nil && gpan == nil && gperr == nil {
				gerr = errors.New("probe did not return a one-element array")
			}
			ok := false
			if gerr == nil && gpan == nil && gperr == nil {
				for ci := len(cands) - 1; ci >= 0; ci-- { // the latest value first
					if matches(cands[ci], got) {
						sr.m.setEntry(a.name, cands[ci])
						ok = true
						break
					}
				}
			}
			if !ok {
				sr.violation("after an aborted evaluation a local holds its old or its new value", "local-garbage-after-abort", desc+": "+a.name+" = "+implString(got)+" is none of the values it held")
			}
		}
	}
	sr.checkAux(sr.m, sr.r, desc)
}

// opEvalAgain evaluates the formula of the previous EVAL once more, on the very tree
// that was evaluated then (a counter formula `$n = $n + 1` must count).
func (sr *sessRunner) opEvalAgain() {
	if sr.last == nil {
		return
	}
	// the formula was generated against an earlier state: it is only re-run when the
	// model can evaluate it against the current one (types may have changed)
	used := map[string]bool{}
	sr.last.stubsUsed(used)
	for st := range used {
		if !sr.m.hasThis || !sr.m.stubs[st] {
			return // calling something that is not a function is outside the statements (it panics today)
		}
	}
	dry := &mEnv{m: sr.m.clone()}
	if _, err := dry.eval(sr.last); err == errModelCond || err == errModelType || err == errModelNotFunc {
		return
	}
	sr.ops++
	sr.evals++
	sr.hist = append(sr.hist, "EVAL-AGAIN(`"+sr.lastText+"`, same tree)")
	sr.again = true
	sr.evalChecked(sr.last, sr.lastText, 0, false)
	sr.again = false
	sr.rc.probe("same_tree_evaluated_again_on_the_same_runner")
}

// opFailBurst: a long-lived runner meets many failing evaluations in a row (the same deeply
// nested formula that ends in an assignment to something that is not a local); afterwards it
// must behave as before.
func (sr *sessRunner) opFailBurst(s *Stream) {
	k := 150 + s.Intn(450)
	depth := 6 + s.Intn(10)
	n := &MNode{Op: nBadAssign, Raw: []string{"x", "o.a", "'s'", "y"}[s.Intn(4)], Kids: []*MNode{lit(mNum(int64(s.Intn(9))))}}
	for i := 0; i < depth; i++ {
		if i%2 == 0 {
			n = &MNode{Op: nParen, Kids: []*MNode{n}}
		} else {
			n = &MNode{Op: nArray, Kids: []*MNode{lit(mNum(int64(i))), n}}
		}
	}
	text := n.text(cxTop)
	sr.hist = append(sr.hist, "FAIL-BURST("+strconv.Itoa(k)+" x `"+text+"`)")
	sr.ops++
	for i := 0; i < k && len(sr.viol) == 0; i++ {
		sr.evals++
		sr.evalChecked(n, text, 0, false)
	}
	sr.rc.probe("burst_of_failing_evaluations_on_one_runner")
}

func (sr *sessRunner) opEval(s *Stream, maxNodes, maxDepth int, faults bool, enumerate bool) {
	sr.ops++
	sr.evals++
	n := genSessionFormula(s, sr.m, maxNodes, maxDepth, true, sr.rc.opt["nullargs"] == "1")
	text := n.text(cxTop)
	if s.Intn(4) == 0 {
		text = decorateWS(s, text) // the same formula written with other white space
		sr.rc.probe("formula_written_with_unusual_white_space")
	}
	sr.last, sr.lastText = n, text
	// how many host calls does the fault-free evaluation make?
	dry := &mEnv{m: sr.m.clone()}
	dry.eval(n)
	calls := dry.calls
	if len(dry.assigned) > 0 {
		sr.rc.probe("evaluation_assigns_locals")
	}
	if calls > 0 && faults && enumerate && calls <= 8 {
		// enumerate every single-fault position on clones of the current state
		for k := 1; k <= calls; k++ {
			sh := &sessRunner{id: sr.id, r: formula.NewRunner(), m: sr.m.clone(), st: sr.st, fl: sr.fl, flavour: sr.flavour, prop: sr.prop, rc: sr.rc, tc: sr.tc, hist: append(append([]string{}, sr.hist...), "CLONE")}
			sh.ctx = context.WithValue(context.Background(), "formulaRunner", sh.r)
			if sh.m.hasThis {
				sh.cur = sh.goMap(sh.m)
				sh.api("SetThis(map)", func() { sh.r.SetThis(sh.cur) })
			}
			for key, v := range sh.m.aux {
				key, v := key, v
				fnResolve = func(name string) interface{} { return sh.cur[name] } // (a nil map reads as nil)
				gv := v.toGo(3)
				fnResolve = nil
				sh.api("Set("+key+")", func() { sh.r.Set(key, gv) })
			}
			sh.evalChecked(n, text, k, true)
			sr.shadow++
			sr.viol = append(sr.viol, sh.viol...)
		}
	}
	faultAt := 0
	if faults && calls > 0 && sr.fl.Intn(4) == 0 {
		faultAt = 1 + sr.fl.Intn(calls)
	}
	sr.hist = append(sr.hist, "EVAL(`"+text+"`"+func() string {
		if faultAt > 0 {
			return ", fault at call " + strconv.Itoa(faultAt)
		}
		return ""
	}()+")")
	sr.evalChecked(n, text, faultAt, false)
}

// ---------------------------------------------------------------- the run

type sessSample struct {
	Runners  int        `json:"runners"`
	Tasks    int        `json:"tasks"`
	Faults   bool       `json:"fault_injection"`
	Strategy string     `json:"strategy,omitempty"`
	Hist     [][]string `json:"histories"`
	Switches int64      `json:"switches"`
	Sched    []string   `json:"first_context_switches,omitempty"`
}

// drawNames varies, per run, how the data names and locals are spelt: pairs that differ only in
// case, names outside ASCII, a digit or a second $ after the $.
const longName = "customer_shipping_address_postal_region_code_"

func drawNames(s *Stream) {
	sessKeys = sessKeysBase
	if s.Intn(4) == 0 { // a store with many keys: more than any small fixed-size fast path holds
		sessKeys = append([]string{}, sessKeysBase...)
		for i, n := 0, 4+s.Intn(57); i < n; i++ {
			sessKeys = append(sessKeys, "key"+strconv.Itoa(i))
		}
	}
	sessNames[0] = []string{"x", "x", "x", "X", "名前", longName + "1"}[s.Intn(6)]
	sessNames[1] = []string{"y", "y", "X", "Y", "x1", longName + "2"}[s.Intn(6)]
	if sessNames[1] == sessNames[0] {
		sessNames[1] = "y"
	}
	sessLocals[1] = []string{"$b", "$b", "$A", "$1", "$中文", "$" + longName + "a", "$顧客の配送先住所の郵便番号の地域コード一"}[s.Intn(7)]
	sessLocals[2] = []string{"$c", "$c", "$$", "$_c", "$a1", "$" + longName + "b", "$顧客の配送先住所の郵便番号の地域コード二"}[s.Intn(7)]
	switch s.Intn(12) { // pairs of names that a popular string hash (h*31 + c) cannot tell apart
	case 0:
		sessLocals[1], sessLocals[2] = "$Aa", "$BB"
	case 1:
		sessNames[0], sessNames[1] = "aO", "b0"
	case 2:
		sessLocals[1], sessLocals[2] = "$AaAa", "$BBBB"
		sessNames[0], sessNames[1] = "AaBB", "BBAa"
	}
}

func runSessions(rc *RunCtx) {
	pl := rc.tape.Stream("plan")
	drawNames(rc.tape.Stream("names"))
	maxOps, maxNodes, maxDepth := 12, 15, 4
	if rc.thorough {
		maxOps, maxNodes, maxDepth = 40, 40, 7
	}
	if rc.opt["mode"] == "frame" || (rc.prop == "C07" && pl.Intn(4) == 0) {
		runFrame(rc)
		return
	}
	faults := pl.Bool(1, 2) // fault-free and fault-injecting configurations are separate runs
	nTasks := 1
	if pl.Intn(4) == 0 {
		nTasks = 2 + pl.Intn(2)
	}
	nRunners := nTasks * (1 + pl.Intn(2))
	if nTasks == 1 {
		nRunners = 1 + pl.Intn(3)
	}
	var srs []*sessRunner
	tc := &treeCache{} // one per run, shared by its runners: the probe formulas ($a, x, ...) recur constantly
	for i := 0; i < nRunners; i++ {
		sr := &sessRunner{id: i, r: formula.NewRunner(), m: newRunnerModel(), prop: rc.prop, rc: rc, tc: tc,
			st: rc.tape.Stream("runner-" + strconv.Itoa(i)), fl: rc.tape.Stream("faults-" + strconv.Itoa(i))}
		sr.ctx = context.WithValue(context.Background(), "formulaRunner", sr.r)
		srs = append(srs, sr)
	}
	nOps := make([]int, nRunners)
	for i := range nOps {
		nOps[i] = 1 + pl.Intn(maxOps)
	}
	body := func(sr *sessRunner, n int) {
		s := sr.st
		burstAt := -1
		if s.Intn(24) == 0 {
			burstAt = s.Intn(n)
		}
		for k := 0; k < n; k++ {
			if k == burstAt {
				sr.opFailBurst(s)
			}
			switch r := s.Intn(20); {
			case r < 3:
				sr.opSetThis(s)
			case r < 5:
				sr.opSetVal(s)
			case r < 7:
				sr.opStore(s)
			case r < 9:
				sr.opFetch(s)
			case r < 10:
				if k := s.Intn(4); k == 0 {
					sr.opCallerWrite(s)
				} else if k == 3 {
					sr.opCallerEditsList(s)
				} else if k == 1 {
					sr.opEvalAgain()
				} else {
					sr.ops++
					sr.hist = append(sr.hist, "PROBE")
					sr.probeLocals("PROBE")
				}
			default:
				sr.opEval(s, maxNodes, maxDepth, faults, true)
			}
			if len(sr.viol) > 0 {
				return
			}
		}
		sr.probeLocals("final probe")
		sr.checkAux(sr.m, sr.r, "final")
	}
	sample := &sessSample{Runners: nRunners, Tasks: nTasks, Faults: faults}
	if nTasks == 1 {
		for i, sr := range srs {
			body(sr, nOps[i])
		}
	} else {
		strat := drawStrategy(pl, rc.tier, false)
		sample.Strategy = strategyNames[strat.Kind]
		rc.strats[strategyNames[strat.Kind]]++
		sched := NewSched(nTasks, strat, rc.tape.Stream("sched"), 300000)
		tasks := make([]func(), nTasks)
		for t := 0; t < nTasks; t++ {
			t := t
			tasks[t] = func() {
				for i, sr := range srs {
					if i%nTasks == t {
						body(sr, nOps[i])
					}
				}
			}
		}
		sched.Run(tasks)
		rc.switches += sched.switches
		rc.faults["preempt"] += sched.switches
		rc.ev.add(sched.trace.h)
		sample.Switches = sched.switches
		sample.Sched = sched.scheduleTrace()
		if sched.switches > 0 {
			rc.probe("runners_interleaved_at_statement_level")
		}
	}
	var shape evHash
	totalEvals, relaxed, shadow := 0, 0, 0
	for _, sr := range srs {
		for _, h := range sr.hist {
			shape.addString(h)
		}
		sample.Hist = append(sample.Hist, sr.hist)
		totalEvals += sr.evals
		relaxed += sr.relaxed
		shadow += sr.shadow
		rc.viol = append(rc.viol, sr.viol...)
	}
	rc.ev.add(shape.h)
	rc.sig = shape.h
	rc.nontriv = totalEvals > 0 && (relaxed > 0 || shadow > 0 || nRunners > 1 || totalEvals > 1)
	rc.probes["evaluations"] += int64(totalEvals)
	rc.probes["evaluations_of_an_already_evaluated_tree"] += int64(tc.hits)
	rc.probes["shadow_fault_evaluations"] += int64(shadow)
	rc.sample = sample
}
