package main

import (
	"context"
	"runtime"
	"sort"
	"strconv"
	"strings"
	"time"

	"github.com/aundis/formula"
)

// Scenario `purity` (C08): evaluation is a pure function of formula text and
// data. A corpus derived from the batch seed is evaluated once at process
// start (pristine state: the baseline); every run then is a history of
// re-parses, re-evaluations and field analyses of corpus entries interleaved
// with unrelated noise, under fresh map-iteration orders, pool flushes, clock
// jumps and another process zone, on one task or on several tasks interleaved
// at statement level. Every repetition must reproduce the baseline, every tree
// must stay bit-for-bit what the parser produced.

func init() { scenarios["purity"] = runPurity }

var batchSeed uint64 = 1

type corpusEntry struct {
	Text     string
	Spec     dataSpec
	zoneDep  bool
	parseErr string
	tree     *formula.SourceCode
	treeHash uint64 // full deep dump: must not change through evaluation or analysis
	treeN    int
	structH  uint64 // the same without node ids: must be equal for every parse of the text
	structN  int
	outcome  string
	fields   string
}

var (
	corpus       []corpusEntry
	corpusHash   uint64
	corpusBuilt  bool
	corpusTier   string
	corpusDigest []string
	chunkFrom    int
	purityChunks int
)

func fieldsOf(src *formula.SourceCode) (res string) {
	defer func() {
		if p := recover(); p != nil {
			res = panicOutcome(p)
		}
	}()
	fs, err := formula.ResolveReferenceFields(src)
	if err != nil {
		return "E:" + err.Error()
	}
	nl, err := formula.ResolveReferenceFieldsNotLocal(src)
	if err != nil {
		return "E:" + err.Error()
	}
	a := append([]string(nil), fs...)
	b := append([]string(nil), nl...)
	sort.Strings(a)
	sort.Strings(b)
	return "F:" + strings.Join(a, ",") + "|" + strings.Join(b, ",")
}

// evalFresh evaluates a tree with a fresh runner over a fresh data map.
// reKeyT: the context key under which a host function finds the runner it is to evaluate a
// formula on while the calling evaluation is under way (f_re): the calling runner itself
// (mode 0) or another one (mode 1). The outcome must not depend on which.
type reKeyT struct{}

func evalFresh(src *formula.SourceCode, spec dataSpec, mode int) (res string) {
	defer func() {
		if p := recover(); p != nil {
			res = panicOutcome(p)
		}
	}()
	lg := &hostLog{}
	r := formula.NewRunner()
	if !spec.NoMap {
		r.SetThis(spec.build(lg, time.UTC))
	}
	target := r
	if mode%2 == 1 {
		target = formula.NewRunner()
	}
	v, err := r.Resolve(context.WithValue(context.Background(), reKeyT{}, target), src.Expression)
	return outcome(v, err) + " host=" + strings.Join(lg.calls, ";")
}

func buildCorpus(tier string) {
	k, nodes, depth := 64, 25, 6
	if tier == "thorough" {
		k, nodes, depth = 512, 80, 12
	}
	tp := NewTape(mix64(batchSeed, hashString("purity-corpus")), nil)
	s := tp.Stream("corpus")
	cfg := genCfg{maxNodes: nodes, maxDepth: depth, clockFns: false, hostFns: true, assign: true}
	savedLocal := time.Local
	time.Local = time.UTC
	permOff = true
	// 1. the corpus itself: identical in every worker process
	for i := 0; i < k; i++ {
		e := corpusEntry{Spec: genDataSpec(s)}
		if i%4 == 3 {
			e.Spec.Variant = 1 + 2*(i/4%2) // force the two-unconvertible-entries maps at a minimum rate
		}
		switch {
		case i%8 == 7:
			e.Text = mutateText(s, genFormula(s, cfg))
		case i%4 == 3:
			e.Text = []string{"f_map(m1)", "f_map(m2) + f_map(m1)", "[f_map(m1), n1]", "$a = f_map(m1), $a"}[i/4%4]
		default:
			e.Text = genFormula(s, cfg)
		}
		e.zoneDep = strings.Contains(e.Text, "date(") || strings.Contains(e.Text, "toDay") || strings.Contains(e.Text, "now(")
		corpus = append(corpus, e)
	}
	// every text of the lexical / syntax error collection: which diagnostic a text gets
	// must not depend on which other texts failed before it
	for _, t := range append(append([]string{}, brokenTexts...), badUnicodeTexts...) {
		corpus = append(corpus, corpusEntry{Text: t, Spec: genDataSpec(s)})
	}
	// probes that show every kind of data value as it is (sign of a zero, float32 digits, struct fields ...)
	for _, t := range valueProbes {
		for v := 0; v < 3; v++ {
			corpus = append(corpus, corpusEntry{Text: t, Spec: genDataSpec(s)})
		}
	}
	// roots, logarithms and powers of operands with more digits than a machine word holds
	// (quotients that do not terminate), each over several data maps
	for _, t := range []string{"sqrt(abs(n1) / 7 + 2)", "sqrt(abs(n2) / 7 + 2)", "ln(abs(n3) / 3 + 1)", "ln(abs(n4) / 3 + 1)", "log(abs(n1) / 9 + 1)", "exp(abs(n2 % 5) / 3)", "sqrt(n1 * n1 / 7 + 12345678901234567890.5)", "[sqrt(2 / 3), sqrt(1 / 3), ln(10 / 3), ln(20 / 3)]"} {
		for v := 0; v < 3; v++ {
			corpus = append(corpus, corpusEntry{Text: t, Spec: genDataSpec(s)})
		}
	}
	// names that are builtins, read as plain values (no call anywhere in the formula), and
	// fields of two struct types that print the same name
	for _, t := range []string{"year", "[len, upper]", "year + 1", "typeof max", "st2.N * 10 + st2.F", "[st2.S, st2.N]", "st1.N + st2.N", "st2"} {
		for v := 0; v < 3; v++ {
			corpus = append(corpus, corpusEntry{Text: t, Spec: genDataSpec(s)})
		}
	}
	// pairs of equal-length texts that a popular 32-bit hash cannot tell apart (FNV-1a, FNV-1,
	// CRC-32 IEEE and Castagnoli, h*31+c, Adler-32, FNV-64a folded): a parse or result cache
	// keyed by such a hash hands the second text the first one's tree
	for _, t := range []string{"n1 * 10549599 + n2", "n1 * 10712382 + n2", "n1 * 10942068 + n2", "n1 * 11004626 + n2",
		"n1 * 29685295 + n2", "n1 * 32060020 + n2", "n1 * 11371838 + n2", "n1 * 12000402 + n2", "n1 * 10721006 + n2", "n1 * 81000710 + n2",
		"n1 * 10000020 + n2", "n1 * 10000101 + n2", "n1 * 10060920 + n2", "n1 * 10062403 + n2"} {
		corpus = append(corpus, corpusEntry{Text: t, Spec: genDataSpec(s)})
	}
	// runners that are never given a data map: what one of them binds is its own business
	for i, t := range []string{"$a = 41, $a", "[$a, $b, $c]", "$c = [1], $b = 'q', 0", "$a", "$b = $a, [$b]", "$a = $a + 1"} {
		for v := 0; v < 2; v++ {
			sp := genDataSpec(s)
			sp.NoMap = true
			corpus = append(corpus, corpusEntry{Text: t, Spec: sp})
		}
		_ = i
	}
	k = len(corpus)
	// 2. the baseline: every process parses and evaluates the corpus in its own
	// order (derived from its chunk), so that a result which depends on what was
	// parsed or evaluated before it shows up as a disagreement between processes
	order := make([]int, k)
	for i := range order {
		order[i] = i
	}
	ost := mix64(batchSeed, uint64(chunkFrom)+0x0bde)
	for i := k - 1; i > 0; i-- {
		j := int(splitmix(&ost) % uint64(i+1))
		order[i], order[j] = order[j], order[i]
	}
	for _, i := range order {
		e := &corpus[i]
		src, err, pan := safeParse(e.Text)
		switch {
		case pan != nil:
			e.parseErr = panicOutcome(pan)
		case err != nil:
			e.parseErr = "E:" + err.Error()
		}
		if src != nil {
			e.tree = src
			e.treeHash, e.treeN = deepHash(src)
			e.structH, e.structN = structHash(src)
		}
		if e.parseErr == "" && src != nil {
			e.outcome = evalFresh(src, e.Spec, i)
			e.fields = fieldsOf(src)
			// evaluation and analysis must not have touched the tree
			if hh, _ := deepHash(src); hh != e.treeHash {
				e.outcome += " TREE-MODIFIED-DURING-BASELINE"
			}
		}
	}
	var h evHash
	for i := range corpus {
		e := &corpus[i]
		h.addString(e.Text)
		h.addString(e.parseErr)
		h.add(e.structH)
		h.addString(e.outcome)
		h.addString(e.fields)
		corpusDigest = append(corpusDigest, "parse="+e.parseErr+" tree="+strconv.FormatUint(e.structH, 16)+" eval="+e.outcome+" fields="+e.fields)
	}
	permOff = false
	time.Local = savedLocal
	corpusHash = h.h
	corpusBuilt = true
}

var valueProbes = []string{"toString(fnz)", "toString(fz)", "[fz, fnz, n1, n2, n3, n4]", "fnz", "'' + fz + '|' + fnz", "[名前, x\u0662, cafe\u0301]",
	"[st1.N, st1.S, st1.F]", "[o1.a, o1.b, o1.c.d]", "this.n1", "[toString(n1), toString(n2), toString(n3), toString(n4)]", "an1", "[t1, year(t1), month(t1)]", "mapToArr(l1, 'age')",
	"(max)(n1, 2)", "1 + ((min))(n1, 7)", "(o1).a", "Max(2, 7)", "Len('x') + 1", "Max > 3 ? 'big' : 'small'", "max(an2...)", "max([1, 2, 3]...)", "(f_id)(1)"}

const (
	puRep = iota
	puParse
	puFields
	puNoise
	puFlush
	puClock
	puKinds
)

var puNames = [...]string{"REPEAT_EVAL", "REPARSE", "FIELDS", "NOISE", "POOL_FLUSH", "CLOCK_JUMP"}

type puOp struct {
	Kind int    `json:"kind"`
	Idx  int    `json:"idx"`
	Text string `json:"text,omitempty"`
	Seed uint64 `json:"-"`
}

type puSample struct {
	Zone     string     `json:"zone"`
	Tasks    int        `json:"tasks"`
	Strategy string     `json:"strategy,omitempty"`
	Scripts  [][]string `json:"scripts"`
	Corpus   []string   `json:"corpus_entries_used"`
	Switches int64      `json:"switches"`
	Sched    []string   `json:"first_context_switches,omitempty"`
}

func commonPrefix(a, b string) string {
	n := 0
	for n < len(a) && n < len(b) && a[n] == b[n] {
		n++
	}
	p := a[:n]
	if len(p) > 70 {
		p = p[:70]
	}
	return p
}

type puTask struct {
	viol  []Violation
	out   []string
	noise map[int]string
	prop  string
}

func (t *puTask) violation(oracle, class, detail string) {
	if len(t.viol) < 4 {
		t.viol = append(t.viol, Violation{Property: t.prop, Oracle: oracle, Class: class, Detail: detail})
	}
}

func runPurity(rc *RunCtx) {
	if !corpusBuilt {
		buildCorpus(rc.tier)
	}
	wl := rc.tape.Stream("workload")
	pl := rc.tape.Stream("plan")
	maxOps, nodes, depth := 60, 25, 6
	if rc.thorough {
		maxOps, nodes, depth = 200, 60, 10
	}
	cfg := genCfg{maxNodes: nodes, maxDepth: depth, clockFns: true, hostFns: true, assign: true}
	nTasks := 1
	if pl.Intn(4) == 0 {
		nTasks = 2 + pl.Intn(3)
	}
	zn := "UTC"
	if pl.Bool(1, 2) {
		zn = zoneNames[pl.Intn(len(zoneNames))]
	}
	loc := loadZone(zn)
	if loc == nil {
		rc.drop("zone_missing_in_sandbox")
		zn, loc = "UTC", time.UTC
	}
	if zn != "UTC" {
		rc.fault("zone_switch")
	}
	savedLocal := time.Local
	time.Local = loc
	defer func() { time.Local = savedLocal }()
	simClock.onRead = nil
	simClock.now = time.Unix(int64(pl.Intn(4000000000)), 0).UTC()

	// a few corpus entries are repeated often within one history
	focus := make([]int, 1+wl.Intn(4))
	for i := range focus {
		focus[i] = wl.Intn(len(corpus))
	}
	used := map[int]bool{}
	scripts := make([][]puOp, nTasks)
	noiseTexts := []string{}
	for t := 0; t < nTasks; t++ {
		n := 5 + wl.Intn(maxOps-4)
		if nTasks > 1 {
			n = 3 + wl.Intn(maxOps/3)
		}
		for k := 0; k < n; k++ {
			op := puOp{}
			switch r := wl.Intn(20); {
			case r < 8:
				op.Kind = puRep
			case r < 10:
				op.Kind = puParse
			case r < 12:
				op.Kind = puFields
			case r < 17:
				op.Kind = puNoise
			case r < 18:
				op.Kind = puFlush
			default:
				op.Kind = puClock
			}
			switch op.Kind {
			case puRep, puParse, puFields:
				if wl.Bool(2, 3) {
					op.Idx = focus[wl.Intn(len(focus))]
				} else {
					op.Idx = wl.Intn(len(corpus))
				}
				used[op.Idx] = true
			case puNoise:
				if len(noiseTexts) > 0 && wl.Bool(1, 2) {
					op.Idx = wl.Intn(len(noiseTexts)) // repeat an earlier noise formula: it must agree with itself
				} else {
					txt := genFormula(wl, cfg)
					if wl.Intn(5) == 0 {
						txt = mutateText(wl, txt)
					}
					noiseTexts = append(noiseTexts, txt)
					op.Idx = len(noiseTexts) - 1
				}
			case puClock:
				op.Idx = wl.Intn(2000000000)
			}
			op.Seed = mix64(rc.seed, uint64(t)<<20|uint64(k))
			scripts[t] = append(scripts[t], op)
		}
	}
	noiseSpec := genDataSpec(wl)
	tasksState := make([]*puTask, nTasks)
	for t := range tasksState {
		tasksState[t] = &puTask{prop: rc.prop, noise: map[int]string{}}
	}
	doOp := func(t int, op puOp) {
		ts := tasksState[t]
		permReseed(permSlot(), op.Seed)
		switch op.Kind {
		case puRep:
			e := &corpus[op.Idx]
			if e.tree == nil || e.parseErr != "" {
				return
			}
			if e.zoneDep && zn != "UTC" {
				return
			}
			got := evalFresh(e.tree, e.Spec, int(op.Seed>>7))
			if got != e.outcome {
				ts.violation("same value or same error every time", "eval-differs/"+commonPrefix(got, e.outcome),
					"corpus["+strconv.Itoa(op.Idx)+"] `"+e.Text+"` data "+specString(e.Spec)+": now "+got+" ; pristine-process baseline "+e.outcome)
			}
			if h, _ := deepHash(e.tree); h != e.treeHash {
				ts.violation("evaluation leaves the tree unchanged", "tree-modified-by-eval", "corpus["+strconv.Itoa(op.Idx)+"] `"+e.Text+"`: deep dump of the tree changed after evaluation")
				e.treeHash = h
			}
		case puParse:
			e := &corpus[op.Idx]
			src, err, pan := safeParse(e.Text)
			pe := ""
			switch {
			case pan != nil:
				pe = panicOutcome(pan)
			case err != nil:
				pe = "E:" + err.Error()
			}
			if pe != e.parseErr {
				ts.violation("parsing the same text twice gives the same result", "parse-differs/"+commonPrefix(pe, e.parseErr), "`"+e.Text+"`: now "+pe+" ; baseline "+e.parseErr)
			}
			if src != nil && e.tree != nil {
				h, n := structHash(src)
				if h != e.structH || n != e.structN {
					ts.violation("parsing the same text twice gives structurally identical trees", "tree-differs", "`"+e.Text+"`: deep dump of a second parse differs from the first")
				}
			}
		case puFields:
			e := &corpus[op.Idx]
			if e.tree == nil || e.parseErr != "" {
				return
			}
			got := fieldsOf(e.tree)
			if got != e.fields {
				ts.violation("field analysis gives the same set every time", "fields-differ", "`"+e.Text+"`: now "+got+" ; baseline "+e.fields)
			}
			if h, _ := deepHash(e.tree); h != e.treeHash {
				ts.violation("field analysis leaves the tree unchanged", "tree-modified-by-fields", "`"+e.Text+"`: deep dump of the tree changed after field analysis")
				e.treeHash = h
			}
		case puNoise:
			txt := noiseTexts[op.Idx]
			src, err, pan := safeParse(txt)
			res := ""
			if pan != nil || err != nil || src == nil {
				res = "parse-failed"
			} else {
				res = evalFresh(src, noiseSpec, int(op.Seed>>7))
				if strings.Contains(txt, "now()") || strings.Contains(txt, "toDay()") || strings.Contains(txt, "date(") {
					res = "clock-or-zone-dependent"
				}
			}
			if prev, ok := ts.noise[op.Idx]; ok && prev != res {
				ts.violation("same value or same error every time", "eval-differs/"+commonPrefix(res, prev), "noise formula `"+txt+"` data "+specString(noiseSpec)+": now "+res+" ; earlier in this history "+prev)
			}
			ts.noise[op.Idx] = res
		case puFlush:
			runtime.GC()
			runtime.GC()
		case puClock:
			simClock.now = time.Unix(int64(op.Idx), 0).UTC()
		}
	}
	sample := &puSample{Zone: zn, Tasks: nTasks}
	if nTasks == 1 {
		for _, op := range scripts[0] {
			doOp(0, op)
		}
	} else {
		strat := drawStrategy(pl, rc.tier, false)
		sample.Strategy = strategyNames[strat.Kind]
		rc.strats[strategyNames[strat.Kind]]++
		sched := NewSched(nTasks, strat, rc.tape.Stream("sched"), 400000)
		tasks := make([]func(), nTasks)
		for t := 0; t < nTasks; t++ {
			t := t
			tasks[t] = func() {
				for _, op := range scripts[t] {
					doOp(t, op)
				}
			}
		}
		sched.Run(tasks)
		rc.switches += sched.switches
		rc.faults["preempt"] += sched.switches
		rc.ev.add(sched.trace.h)
		sample.Switches = sched.switches
		sample.Sched = sched.scheduleTrace()
		if sched.switches > 0 {
			rc.probe("repetitions_interleaved_at_statement_level")
		}
	}
	var shape evHash
	reps := 0
	for t, sc := range scripts {
		var names []string
		for _, op := range sc {
			shape.add(uint64(op.Kind)<<32 | uint64(op.Idx))
			names = append(names, puNames[op.Kind]+"("+strconv.Itoa(op.Idx)+")")
			switch op.Kind {
			case puRep:
				reps++
			case puFlush:
				rc.fault("pool_flush")
			case puClock:
				rc.fault("clock_jump")
			}
		}
		sample.Scripts = append(sample.Scripts, names)
		rc.viol = append(rc.viol, tasksState[t].viol...)
	}
	for i := range used {
		if len(sample.Corpus) < 6 {
			sample.Corpus = append(sample.Corpus, strconv.Itoa(i)+": "+corpus[i].Text)
		}
	}
	sort.Strings(sample.Corpus)
	rc.probes["repeated_evaluations"] += int64(reps)
	rc.ev.add(shape.h)
	rc.ev.add(corpusHash)
	rc.sig = mix64(shape.h, uint64(nTasks))
	rc.nontriv = reps >= 2
	rc.sample = sample
}

func specString(d dataSpec) string {
	var p []string
	for _, n := range d.Nums {
		p = append(p, strconv.Itoa(n))
	}
	var f []string
	for _, n := range d.Flags {
		f = append(f, strconv.Itoa(n))
	}
	return "{variant " + strconv.Itoa(d.Variant) + " nums " + strings.Join(p, ",") + " flags " + strings.Join(f, ",") + "}"
}
