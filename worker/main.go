package main

import (
	"encoding/json"
	"flag"
	"fmt"
	"os"
	"runtime"
	"runtime/debug"
	"sort"
	"strconv"
	"time"

	"github.com/aundis/formula/simhook"
)

// The worker executes simulated runs of one scenario for one chunk of run
// indices and prints one JSON document. It is one OS process per chunk: process
// start is the "pristine state" the purity and race scenarios need.

type Violation struct {
	Property string              `json:"property"`
	Oracle   string              `json:"oracle"`
	Class    string              `json:"class"` // coarse signature used by the shrinker and by known_findings
	Detail   string              `json:"detail"`
	Run      int                 `json:"run"`
	Seed     uint64              `json:"seed"`
	Tape     map[string][]uint64 `json:"tape"`
	Scenario interface{}         `json:"scenario,omitempty"`
	Hash     string              `json:"event_hash"`
}

type ChunkResult struct {
	Scenario    string            `json:"scenario"`
	Property    string            `json:"property"`
	Tier        string            `json:"tier"`
	From        int               `json:"from"`
	To          int               `json:"to"`
	Runs        int               `json:"runs"`
	Nontrivial  int               `json:"nontrivial"`
	Steps       int64             `json:"steps"`
	TaskSteps   int64             `json:"task_steps"`
	Switches    int64             `json:"switches"`
	Faults      map[string]int64  `json:"faults"`
	Probes      map[string]int64  `json:"probes"`
	Dropped     map[string]int64  `json:"dropped"`
	Sigs        []string          `json:"sigs"` // distinct run signatures (possibly thinned, see sig_thin)
	SigThin     int               `json:"sig_thin"`
	ChunkHash   string            `json:"chunk_hash"`
	RunHashes   []string          `json:"run_hashes,omitempty"`
	Violations  []Violation       `json:"violations"`
	Samples     []interface{}     `json:"samples"`
	SitesHit    int               `json:"sites_hit"`
	SitesTotal  int               `json:"sites_total"`
	SwitchPairs int               `json:"switch_pairs"`
	SimClockMin string            `json:"sim_clock_min,omitempty"`
	SimClockMax string            `json:"sim_clock_max,omitempty"`
	Strategies  map[string]int64  `json:"strategies"`
	RaceErrors  int               `json:"race_errors"`
	RaceBuild   bool              `json:"race_build"`
	GoMaxProcs  int               `json:"gomaxprocs"`
	WallS       float64           `json:"wall_s"`
	Extra       map[string]string `json:"extra,omitempty"`
	PerProcess  []string          `json:"per_process,omitempty"` // values every worker process must agree on, element-wise
	PerProcessQ []string          `json:"per_process_what,omitempty"`
}

// RunCtx is what a scenario sees for one run.
type RunCtx struct {
	prop     string
	tier     string
	thorough bool
	index    int
	seed     uint64
	tape     *Tape
	ev       evHash
	faults   map[string]int64
	probes   map[string]int64
	dropped  map[string]int64
	strats   map[string]int64
	viol     []Violation
	sample   interface{}
	wantSamp bool
	sig      uint64
	nontriv  bool
	steps    int64
	switches int64
	opt      map[string]string
}

func (rc *RunCtx) fault(kind string)  { rc.faults[kind]++ }
func (rc *RunCtx) probe(name string)  { rc.probes[name]++ }
func (rc *RunCtx) drop(reason string) { rc.dropped[reason]++ }

func (rc *RunCtx) violation(oracle, class, detail string) {
	rc.viol = append(rc.viol, Violation{Property: rc.prop, Oracle: oracle, Class: class, Detail: detail})
}

type scenarioFn func(rc *RunCtx)

var scenarios = map[string]scenarioFn{}

type siteInfo struct {
	Sites []struct {
		ID   int    `json:"id"`
		Hot  bool   `json:"hot"`
		File string `json:"file"`
		Line int    `json:"line"`
	} `json:"sites"`
}

func runSeed(batch uint64, prop string, i int) uint64 {
	return mix64(mix64(batch, hashString(prop)), uint64(i)+1)
}

func main() {
	scen := flag.String("scenario", "", "scenario name")
	prop := flag.String("prop", "", "property id")
	tier := flag.String("tier", "quick", "quick|thorough")
	seed := flag.Uint64("seed", 1, "batch seed (VERIF_SEED)")
	from := flag.Int("from", 0, "first run index")
	to := flag.Int("to", 1, "one past the last run index")
	replay := flag.String("replay", "", "replay file (a Violation JSON with seed and tape)")
	sites := flag.String("sites", "", "sim_sites.json of the instrumented copy")
	out := flag.String("out", "", "output file (default stdout)")
	hashes := flag.Bool("hashes", false, "include per-run event hashes")
	samples := flag.Int("samples", 2, "number of sample scenarios to include")
	thin := flag.Int("thin", 1, "keep only run signatures with sig % thin == 0")
	optFlag := flag.String("opt", "", "scenario options k=v,k=v")
	chunkFlag := flag.Int("chunk", -1, "first run index of the chunk this process stands for (replay: the chunk the run came from); default -from")
	warm := flag.Int("warm", 0, "replay only: first execute this many preceding runs of the batch (a run that was not the first of its process met warm package state)")
	flag.Parse()

	fn, ok := scenarios[*scen]
	if !ok {
		fmt.Fprintln(os.Stderr, "unknown scenario", *scen)
		os.Exit(2)
	}
	opts := map[string]string{}
	if *optFlag != "" {
		for _, kv := range splitComma(*optFlag) {
			for i := 0; i < len(kv); i++ {
				if kv[i] == '=' {
					opts[kv[:i]] = kv[i+1:]
					break
				}
			}
		}
	}
	if *sites != "" {
		b, err := os.ReadFile(*sites)
		if err != nil {
			fmt.Fprintln(os.Stderr, err)
			os.Exit(2)
		}
		var si siteInfo
		if err := json.Unmarshal(b, &si); err != nil {
			fmt.Fprintln(os.Stderr, err)
			os.Exit(2)
		}
		hotSite = make([]bool, len(si.Sites))
		siteHits = make([]uint32, len(si.Sites))
		siteNames = make([]string, len(si.Sites))
		for _, s := range si.Sites {
			if s.ID < len(hotSite) {
				hotSite[s.ID] = s.Hot
				siteNames[s.ID] = s.File + ":" + strconv.Itoa(s.Line)
			}
		}
	}
	batchSeed = *seed
	chunkFrom = *from
	if *chunkFlag >= 0 {
		chunkFrom = *chunkFlag
	}
	debug.SetGCPercent(-1) // garbage collection (and with it sync.Pool flushing) happens when the simulator says so
	simhook.YHook = yHook
	simhook.BlockHook = blockHook
	simhook.GoHook = goHook
	installHooks()

	start := time.Now()
	res := ChunkResult{Scenario: *scen, Property: *prop, Tier: *tier, From: *from, To: *to,
		Faults: map[string]int64{}, Probes: map[string]int64{}, Dropped: map[string]int64{}, Strategies: map[string]int64{},
		SigThin: *thin, RaceBuild: raceEnabled, GoMaxProcs: runtime.GOMAXPROCS(0)}
	sigs := map[uint64]struct{}{}
	var chunk evHash

	var rep *Violation
	if *replay != "" {
		b, err := os.ReadFile(*replay)
		if err != nil {
			fmt.Fprintln(os.Stderr, err)
			os.Exit(2)
		}
		rep = &Violation{}
		if err := json.Unmarshal(b, rep); err != nil {
			fmt.Fprintln(os.Stderr, err)
			os.Exit(2)
		}
		*from, *to = rep.Run-*warm, rep.Run+1
		if *from < 0 {
			*from = 0
		}
	}

	for i := *from; i < *to; i++ {
		rs := runSeed(*seed, *prop, i)
		var tp *Tape
		if rep != nil && i == rep.Run {
			rs = rep.Seed
			tp = NewTape(rs, rep.Tape)
			if tp.replay == nil {
				tp.replay = map[string][]uint64{}
			}
		} else {
			tp = NewTape(rs, nil)
		}
		rc := &RunCtx{prop: *prop, tier: *tier, thorough: *tier == "thorough", index: i, seed: rs, tape: tp,
			faults: res.Faults, probes: res.Probes, dropped: res.Dropped, strats: res.Strategies,
			wantSamp: len(res.Samples) < *samples || rep != nil, opt: opts}
		rc.ev.add(rs)
		raceBefore := raceErrors()
		stepsBefore := totalSteps
		amb := newAmbient(tp.Stream("ambient"))
		curSched = amb
		fn(rc)
		amb.drain()
		curSched = nil
		if spawnedTotal > 0 {
			rc.probes["goroutines_started_by_the_code_under_test"] += spawnedTotal
			spawnedTotal = 0
		}
		for _, p := range childPanics {
			rc.violation("the library does not crash the process", "panic-in-goroutine-started-by-the-library", "a goroutine started by the code under test panicked (this kills the whole process): "+p)
		}
		childPanics = nil
		if d := raceErrors() - raceBefore; d > 0 {
			rc.violation("race detector", "race", fmt.Sprintf("%d race report(s) during this run; see the race log of this process", d))
		}
		res.Runs++
		res.Steps += totalSteps - stepsBefore
		res.Switches += rc.switches
		if rc.nontriv {
			res.Nontrivial++
			if *thin <= 1 || rc.sig%uint64(*thin) == 0 {
				sigs[rc.sig] = struct{}{}
			}
		}
		chunk.add(rc.ev.h)
		if *hashes {
			res.RunHashes = append(res.RunHashes, fmt.Sprintf("%016x", rc.ev.h))
		}
		if rc.wantSamp && rc.sample != nil && len(res.Samples) < *samples {
			res.Samples = append(res.Samples, rc.sample)
		}
		if tp.Overflow() {
			res.Dropped["tape_overflow"]++
		}
		for _, v := range rc.viol {
			v.Run, v.Seed, v.Tape, v.Hash = i, rs, tp.Export(), fmt.Sprintf("%016x", rc.ev.h)
			v.Scenario = rc.sample
			if len(res.Violations) < 40 {
				res.Violations = append(res.Violations, v)
			}
		}
		if i%64 == 63 {
			runtime.GC() // bound memory; between runs, at fixed run indices
		}
	}
	res.TaskSteps = inTaskSteps
	res.ChunkHash = fmt.Sprintf("%016x", chunk.h)
	for s := range sigs {
		res.Sigs = append(res.Sigs, fmt.Sprintf("%016x", s))
	}
	sort.Strings(res.Sigs)
	for _, h := range siteHits {
		if h > 0 {
			res.SitesHit++
		}
	}
	res.SitesTotal = len(siteHits)
	res.SwitchPairs = pairCount
	res.RaceErrors = raceErrors()
	res.WallS = time.Since(start).Seconds()
	finishChunk(&res)
	b, _ := json.Marshal(res)
	if *out != "" {
		if err := os.WriteFile(*out, b, 0o644); err != nil {
			fmt.Fprintln(os.Stderr, err)
			os.Exit(2)
		}
	} else {
		os.Stdout.Write(b)
		os.Stdout.Write([]byte("\n"))
	}
}

func splitComma(s string) []string {
	var out []string
	cur := ""
	for i := 0; i < len(s); i++ {
		if s[i] == ',' {
			out = append(out, cur)
			cur = ""
		} else {
			cur += string(s[i])
		}
	}
	if cur != "" {
		out = append(out, cur)
	}
	return out
}
