package main

import (
	"errors"
	"sort"
	"strconv"
	"strings"

	"github.com/ericlagergren/decimal"
)

// Reference model for C07 / C20, written from the property statements only:
// a store-passing evaluator over its own AST (the generator emits AST and text
// together; only the text goes to the real parser) and a runner that is a plain
// map plus a separate key-value store.

// ---------------------------------------------------------------- values

type mKind int

const (
	mkNull mKind = iota
	mkBool
	mkNum
	mkStr
	mkArr
	mkMap
	mkFn  // a host function of the data map (S: its name there), as a value: bound to a local, called through it
	mkDec // a decimal literal with trailing zeros in its fraction (S: its text, "1.10"): only bound and read; its scale is part of the value ('v' + 1.10 is "v1.10")
	mkBig // an integer literal with more significant digits than a 34-digit context keeps; only bound, read and compared
)

type MV struct {
	K mKind
	B bool
	N int64
	S string
	A []MV
	M map[string]MV
}

func mNull() MV          { return MV{K: mkNull} }
func mBool(b bool) MV    { return MV{K: mkBool, B: b} }
func mNum(n int64) MV    { return MV{K: mkNum, N: n} }
func mStr(s string) MV   { return MV{K: mkStr, S: s} }
func mArr(a []MV) MV     { return MV{K: mkArr, A: a} }
func mMap(m map[string]MV) MV { return MV{K: mkMap, M: m} }

func (v MV) String() string {
	switch v.K {
	case mkNull:
		return "null"
	case mkBool:
		return strconv.FormatBool(v.B)
	case mkNum:
		return strconv.FormatInt(v.N, 10)
	case mkStr:
		return strconv.Quote(v.S)
	case mkDec:
		return "num:" + v.S // as implString renders a number with a fraction
	case mkBig:
		return v.S
	case mkFn:
		return "fn"
	case mkArr:
		var p []string
		for _, e := range v.A {
			p = append(p, e.String())
		}
		return "[" + strings.Join(p, ",") + "]"
	case mkMap:
		keys := make([]string, 0, len(v.M))
		for k := range v.M {
			keys = append(keys, k)
		}
		sort.Strings(keys)
		var p []string
		for _, k := range keys {
			p = append(p, k+":"+v.M[k].String())
		}
		return "{" + strings.Join(p, ",") + "}"
	}
	return "?"
}

func (v MV) equal(w MV) bool { return v.String() == w.String() }

// toGo builds a fresh Go value the way a caller would put it into a data map.
// flavour varies the Go representation of numbers (int, int64, float64, *decimal.Big).
func (v MV) toGo(flavour int) interface{} {
	switch v.K {
	case mkNull:
		return nil
	case mkBool:
		return v.B
	case mkNum:
		if v.N > 1<<53 || v.N < -(1<<53) {
			// a float64 cannot hold it: hand it over as a Go integer, or the way a formula
			// would have produced it
			switch flavour % 4 {
			case 0:
				return int(v.N)
			case 1:
				return int64(v.N)
			}
			return decimal.WithContext(decimal.Context128).SetMantScale(v.N, 0)
		}
		switch flavour % 4 {
		case 0:
			return int(v.N)
		case 1:
			return int64(v.N)
		case 2:
			return float64(v.N)
		default:
			return decimal.WithContext(decimal.Context128).SetMantScale(v.N, 0)
		}
	case mkStr:
		return v.S
	case mkFn:
		if fnResolve != nil {
			if f := fnResolve(v.S); f != nil {
				return f
			}
		}
		return dummyFn // a function of a map that is gone: still a function
	case mkDec:
		d, _ := new(decimal.Big).SetString(v.S)
		return d
	case mkBig:
		if v.N == 1 { // handed over by the caller as a Go float64
			f, _ := strconv.ParseFloat(v.S, 64)
			return f
		}
		d, _ := new(decimal.Big).SetString(v.S) // unlimited precision
		return d
	case mkArr:
		out := make([]interface{}, len(v.A))
		for i, e := range v.A {
			out[i] = e.toGo(3) // arrays come from formulas: numbers are formula numbers
		}
		return out
	case mkMap:
		out := map[string]interface{}{}
		for k, e := range v.M {
			out[k] = e.toGo(flavour + len(k))
		}
		return out
	}
	return nil
}

// matches compares a model value with what the implementation produced.
// fnResolve: while a caller's map is being rebuilt from the model (harness code only, no library
// call in between), the function that a function-valued model entry stands for.
var fnResolve func(name string) interface{}

func dummyFn(v interface{}) (interface{}, error) { return v, nil }

func matches(v MV, got interface{}) bool {
	switch v.K {
	case mkNull:
		return got == nil
	case mkFn:
		return isFunc(got)
	case mkBool:
		b, ok := got.(bool)
		return ok && b == v.B
	case mkNum:
		switch x := got.(type) {
		case *decimal.Big:
			return x != nil && x.Cmp(decimal.New(v.N, 0)) == 0
		case float64:
			return x == float64(v.N)
		case int:
			return int64(x) == v.N
		case int64:
			return x == v.N
		}
		return false
	case mkStr:
		s, ok := got.(string)
		return ok && s == v.S
	case mkDec:
		want, _ := new(decimal.Big).SetString(v.S)
		switch x := got.(type) {
		case *decimal.Big: // the same number AND the same number of decimals
			return x != nil && x.Cmp(want) == 0 && x.Scale() == want.Scale()
		case float64:
			f, _ := want.Float64()
			return x == f
		}
		return false
	case mkBig:
		want, _ := new(decimal.Big).SetString(v.S)
		switch x := got.(type) {
		case *decimal.Big:
			return x != nil && x.Cmp(want) == 0
		case float64:
			f, _ := want.Float64()
			return x == f
		}
		return false
	case mkArr:
		a, ok := got.([]interface{})
		if !ok || len(a) != len(v.A) {
			return false
		}
		for i := range a {
			if !matches(v.A[i], a[i]) {
				return false
			}
		}
		return true
	case mkMap:
		m, ok := got.(map[string]interface{})
		if !ok {
			return false
		}
		for k, e := range v.M {
			if !matches(e, m[k]) {
				return false
			}
		}
		for k := range m {
			if _, ok := v.M[k]; !ok && !isFunc(m[k]) {
				return false
			}
		}
		return true
	}
	return false
}

// ---------------------------------------------------------------- AST

type mOp int

const (
	nLit mOp = iota
	nName
	nLocal
	nAssign
	nComma
	nArray
	nParen
	nCond
	nAdd
	nEq3
	nCall
	nSel
	nBadAssign
	nThis
	nSub
	nMul
	nNeg
)

type MNode struct {
	Op   mOp
	V    MV       // nLit
	Name string   // nName, nLocal, nAssign(target), nCall(fn), nSel(field)
	Kids []*MNode // operands
	Raw  string   // nBadAssign: target text
}

// contexts for text emission
const (
	cxTop     = iota // comma allowed
	cxAssign         // assignment / conditional allowed, comma not
	cxBinary         // operand of a binary operator or condition
	cxPrimary        // callee position / selector base
)

func (n *MNode) text(cx int) string {
	switch n.Op {
	case nLit:
		switch n.V.K {
		case mkNull:
			return "null"
		case mkBool:
			return strconv.FormatBool(n.V.B)
		case mkNum:
			return strconv.FormatInt(n.V.N, 10)
		case mkStr:
			return "'" + n.V.S + "'"
		case mkBig, mkDec:
			return n.V.S
		}
		return "null"
	case nName:
		return n.Name
	case nThis:
		return "this"
	case nLocal:
		return n.Name
	case nAssign:
		s := n.Name + " = " + n.Kids[0].text(cxAssign)
		if cx > cxAssign {
			return "(" + s + ")"
		}
		return s
	case nComma:
		s := n.Kids[0].text(cxTop) + ", " + n.Kids[1].text(cxAssign)
		if cx > cxTop {
			return "(" + s + ")"
		}
		return s
	case nArray:
		var p []string
		for _, k := range n.Kids {
			p = append(p, k.text(cxAssign))
		}
		return "[" + strings.Join(p, ", ") + "]"
	case nParen:
		return "(" + n.Kids[0].text(cxTop) + ")"
	case nCond:
		s := n.Kids[0].text(cxBinary) + " ? " + n.Kids[1].text(cxAssign) + " : " + n.Kids[2].text(cxAssign)
		if cx > cxAssign {
			return "(" + s + ")"
		}
		return s
	case nAdd:
		s := n.Kids[0].text(cxPrimary) + " + " + n.Kids[1].text(cxPrimary)
		if cx > cxBinary {
			return "(" + s + ")"
		}
		return s
	case nSub, nMul:
		op := " - "
		if n.Op == nMul {
			op = " * "
		}
		s := n.Kids[0].text(cxPrimary) + op + n.Kids[1].text(cxPrimary)
		if cx > cxBinary {
			return "(" + s + ")"
		}
		return s
	case nNeg:
		return "-" + n.Kids[0].text(cxPrimary)
	case nEq3:
		s := n.Kids[0].text(cxPrimary) + " === " + n.Kids[1].text(cxPrimary)
		if cx > cxBinary {
			return "(" + s + ")"
		}
		return s
	case nCall:
		var p []string
		for i, k := range n.Kids {
			if n.Name == "evk" && i == 1 {
				continue // the formula evk evaluates is handed to the host by number
			}
			p = append(p, k.text(cxAssign))
		}
		if n.Raw == "spread" {
			return n.Name + "(" + strings.Join(p, ", ") + "...)"
		}
		return n.Name + "(" + strings.Join(p, ", ") + ")"
	case nSel:
		return n.Kids[0].text(cxPrimary) + "." + n.Name
	case nBadAssign:
		s := n.Raw + " = " + n.Kids[0].text(cxAssign)
		if cx > cxAssign {
			return "(" + s + ")"
		}
		return s
	}
	return "null"
}

// stubsUsed lists the host functions a formula calls.
func (n *MNode) stubsUsed(into map[string]bool) {
	if n.Op == nCall && n.Name != "max" && n.Name != "abs" && n.Name != "includes" {
		into[n.Name] = true
	}
	for _, k := range n.Kids {
		k.stubsUsed(into)
	}
}

// collectInner lists the formulas that evk calls in n hand to the host, by number.
func (n *MNode) collectInner(into map[int]string) {
	if n.Op == nCall && n.Name == "evk" {
		into[int(n.Kids[0].V.N)] = n.Kids[1].text(cxTop)
	}
	for _, k := range n.Kids {
		k.collectInner(into)
	}
}

func (n *MNode) size() int {
	c := 1
	for _, k := range n.Kids {
		c += k.size()
	}
	return c
}

// ---------------------------------------------------------------- runner model

type runnerModel struct {
	hasThis bool
	this    map[string]MV // data entries and $locals; host stubs are tracked in stubs
	stubs   map[string]bool
	aux     map[string]MV
}

func newRunnerModel() *runnerModel {
	return &runnerModel{aux: map[string]MV{}, stubs: map[string]bool{}}
}

func (m *runnerModel) clone() *runnerModel {
	c := &runnerModel{hasThis: m.hasThis, aux: map[string]MV{}, stubs: map[string]bool{}}
	if m.hasThis {
		c.this = map[string]MV{}
		for k, v := range m.this {
			c.this[k] = v
		}
	}
	for k, v := range m.aux {
		c.aux[k] = v
	}
	for k, v := range m.stubs {
		c.stubs[k] = v
	}
	return c
}

func (m *runnerModel) lookup(name string) MV {
	if !m.hasThis {
		return mNull()
	}
	if v, ok := m.this[name]; ok {
		return v
	}
	return mNull()
}

func (m *runnerModel) setEntry(name string, v MV) {
	if !m.hasThis {
		m.hasThis = true
		m.this = map[string]MV{}
	}
	m.this[name] = v
}

// ---------------------------------------------------------------- evaluator

var (
	errModelHost      = errors.New("model: host function returned an error")
	errModelBadTarget = errors.New("model: assignment to something that is not a bare $name")
	errModelNotFunc   = errors.New("model: callee is not a function")
	errModelCond      = errors.New("model: condition is not a boolean (generator bug)")
	errModelType      = errors.New("model: operand kinds not covered by the statement (generator bug)")
)

type assignRec struct {
	name   string
	old    MV
	hadOld bool
	new    MV
}

type mEnv struct {
	m        *runnerModel
	log      []string // host invocations in order, as "fn(arg,...)"
	calls    int
	faultAt  int // 1-based index of the host call that returns an error; 0: none
	assigned []assignRec
	puts     []string // aux keys written by completed put calls
}

func (e *mEnv) eval(n *MNode) (MV, error) {
	switch n.Op {
	case nLit:
		return n.V, nil
	case nName, nLocal:
		if n.Op == nName && e.m.hasThis && e.m.stubs[n.Name] {
			return MV{K: mkFn, S: n.Name}, nil // a host function of the data map, as a value
		}
		return e.m.lookup(n.Name), nil
	case nThis:
		if !e.m.hasThis {
			return mNull(), nil
		}
		return mMap(e.m.this), nil
	case nAssign:
		v, err := e.eval(n.Kids[0])
		if err != nil {
			return mNull(), err
		}
		old, had := MV{}, false
		if e.m.hasThis {
			old, had = e.m.this[n.Name]
		}
		e.assigned = append(e.assigned, assignRec{n.Name, old, had, v})
		e.m.setEntry(n.Name, v)
		return v, nil
	case nComma:
		if _, err := e.eval(n.Kids[0]); err != nil {
			return mNull(), err
		}
		return e.eval(n.Kids[1])
	case nArray:
		out := make([]MV, 0, len(n.Kids))
		for _, k := range n.Kids {
			v, err := e.eval(k)
			if err != nil {
				return mNull(), err
			}
			out = append(out, v)
		}
		return mArr(out), nil
	case nParen:
		return e.eval(n.Kids[0])
	case nCond:
		c, err := e.eval(n.Kids[0])
		if err != nil {
			return mNull(), err
		}
		if c.K != mkBool {
			return mNull(), errModelCond
		}
		if c.B {
			return e.eval(n.Kids[1])
		}
		return e.eval(n.Kids[2])
	case nAdd, nSub, nMul:
		a, err := e.eval(n.Kids[0])
		if err != nil {
			return mNull(), err
		}
		b, err := e.eval(n.Kids[1])
		if err != nil {
			return mNull(), err
		}
		if a.K != mkNum || b.K != mkNum {
			return mNull(), errModelType
		}
		// the model's integers are int64: outside +-2^62 it declines (the generator never
		// produces such operands; a formula evaluated again and again can grow into it)
		const lim = int64(1) << 62
		var r int64
		switch n.Op {
		case nSub:
			r = a.N - b.N
			if (a.N >= 0) != (b.N >= 0) && (r >= 0) != (a.N >= 0) {
				return mNull(), errModelType
			}
		case nMul:
			if a.N != 0 && b.N != 0 {
				if a.N > 1<<31 || a.N < -(1<<31) || b.N > 1<<30 || b.N < -(1<<30) {
					return mNull(), errModelType
				}
			}
			r = a.N * b.N
		default:
			r = a.N + b.N
			if (a.N >= 0) == (b.N >= 0) && (r >= 0) != (a.N >= 0) {
				return mNull(), errModelType
			}
		}
		if r > lim || r < -lim {
			return mNull(), errModelType
		}
		return mNum(r), nil
	case nNeg:
		a, err := e.eval(n.Kids[0])
		if err != nil {
			return mNull(), err
		}
		if a.K != mkNum {
			return mNull(), errModelType
		}
		return mNum(-a.N), nil
	case nEq3:
		a, err := e.eval(n.Kids[0])
		if err != nil {
			return mNull(), err
		}
		b, err := e.eval(n.Kids[1])
		if err != nil {
			return mNull(), err
		}
		if a.K != b.K || (a.K != mkNum && a.K != mkStr && a.K != mkBool && a.K != mkBig) {
			return mNull(), errModelType
		}
		return mBool(a.equal(b)), nil
	case nSel:
		b, err := e.eval(n.Kids[0])
		if err != nil {
			return mNull(), err
		}
		if b.K != mkMap {
			return mNull(), errModelType
		}
		if v, ok := b.M[n.Name]; ok {
			return v, nil
		}
		return mNull(), nil
	case nBadAssign:
		return mNull(), errModelBadTarget
	case nCall:
		if n.Name == "includes" {
			lst, err := e.eval(n.Kids[0])
			if err != nil {
				return mNull(), err
			}
			it, err := e.eval(n.Kids[1])
			if err != nil {
				return mNull(), err
			}
			if lst.K != mkArr || it.K != mkStr {
				return mNull(), errModelType
			}
			for _, x := range lst.A {
				if x.K != mkStr {
					return mNull(), errModelType
				}
				if x.S == it.S {
					return mBool(true), nil
				}
			}
			return mBool(false), nil
		}
		if n.Name == "max" || n.Name == "abs" {
			// builtins of the library: always there, evaluate their arguments left to right
			args := make([]MV, 0, len(n.Kids))
			for _, k := range n.Kids {
				v, err := e.eval(k)
				if err != nil {
					return mNull(), err
				}
				if v.K != mkNum {
					return mNull(), errModelType
				}
				args = append(args, v)
			}
			if n.Name == "abs" {
				if args[0].N < 0 {
					return mNum(-args[0].N), nil
				}
				return args[0], nil
			}
			best := args[0]
			for _, a := range args[1:] {
				if a.N > best.N {
					best = a
				}
			}
			return best, nil
		}
		name := n.Name
		if strings.HasPrefix(name, "$") {
			// the callee is a local that holds a function: it is read before the arguments are evaluated
			v := e.m.lookup(name)
			if v.K != mkFn {
				return mNull(), errModelNotFunc
			}
			name = v.S
		}
		if !e.m.hasThis || !e.m.stubs[name] {
			return mNull(), errModelNotFunc
		}
		if n.Name == "evk" {
			// the host function evaluates another formula on this runner, here and now
			e.calls++
			e.log = append(e.log, "evk("+n.Kids[0].V.String()+")")
			if e.faultAt == e.calls {
				return mNull(), errModelHost
			}
			return e.eval(n.Kids[1])
		}
		if n.Name == "inc" {
			v, err := e.eval(n.Kids[0])
			if err != nil {
				return mNull(), err
			}
			switch {
			case v.K == mkBool || v.K == mkArr || v.K == mkMap || (v.K == mkStr && strings.TrimSpace(v.S) != ""):
				return mNull(), errModelHost // cannot be converted: an error, and the function is not called
			case v.K != mkNum || v.N > 1<<62 || v.N < -(1<<62):
				// null, blank text, numbers outside the int range: what an int parameter
				// receives then is not stated (a formula evaluated again can grow into this)
				return mNull(), errModelType
			}
			e.calls++
			e.log = append(e.log, "inc("+v.String()+")")
			if e.faultAt == e.calls {
				return mNull(), errModelHost
			}
			return mNum(v.N + 1), nil
		}
		args := make([]MV, 0, len(n.Kids))
		for i, k := range n.Kids {
			if name == "poke" && i == 0 {
				continue // `this`: the data map itself, handed to the host
			}
			v, err := e.eval(k)
			if err != nil {
				return mNull(), err
			}
			args = append(args, v)
		}
		if n.Raw == "spread" {
			last := args[len(args)-1]
			if last.K != mkArr {
				return mNull(), errModelType
			}
			args = append(args[:len(args)-1], last.A...)
		}
		var p []string
		for _, a := range args {
			p = append(p, a.String())
		}
		e.calls++
		e.log = append(e.log, name+"("+strings.Join(p, ",")+")")
		if e.faultAt == e.calls {
			return mNull(), errModelHost
		}
		switch name {
		case "rec":
			return args[0], nil
		case "fail":
			return mNull(), errModelHost
		case "put":
			e.m.aux[args[0].S] = args[1]
			e.puts = append(e.puts, args[0].S)
			return args[1], nil
		case "get":
			if v, ok := e.m.aux[args[0].S]; ok {
				return v, nil
			}
			return mNull(), nil
		case "pair":
			return mArr([]MV{args[0], args[1]}), nil
		case "cat":
			return mArr(append([]MV{}, args...)), nil
		case "poke":
			// the host writes the entry into the data map it was handed
			name := args[0].S
			old, had := e.m.this[name]
			e.assigned = append(e.assigned, assignRec{name, old, had, args[1]})
			e.m.setEntry(name, args[1])
			return args[1], nil
		}
		return mNull(), errModelNotFunc
	}
	return mNull(), errModelType
}
