//go:build !race

package main

const raceEnabled = false

func raceErrors() int { return 0 }
