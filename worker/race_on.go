//go:build race

package main

import "runtime"

const raceEnabled = true

func raceErrors() int { return runtime.RaceErrors() }
