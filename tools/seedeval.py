#!/usr/bin/env python3
"""seedeval.py <srcdir> <property> <name> [--tier quick|thorough] [--checks C07,C20]

Confirms a seeded change (patch.diff + demo_test.go + meta.txt written by an
independent sub-agent in <srcdir>) in a scratch worktree of /repo:
  1. the patch applies to /repo's HEAD and the tree compiles,
  2. the repository's own tests pass with it,
  3. the demonstration fails with it and passes without it,
then runs the registered check(s) against the patched scratch copy
(VERIF_REPO=<copy>) and stores everything under /verif/seeded/<name>/
(patch.diff, demo, meta.json). Nothing is ever applied to /repo itself.
"""
import sys, os, subprocess, shutil, json, tempfile, glob, re, time

ENV = dict(os.environ, GOFLAGS='-mod=mod', GOPROXY='off', GOSUMDB='off', GOTOOLCHAIN='local')

def run(cmd, cwd, timeout=1800, env=None):
    r = subprocess.run(cmd, cwd=cwd, env=env or ENV, capture_output=True, text=True, errors='replace', timeout=timeout)
    return r.returncode, (r.stdout + r.stderr)

def main():
    src, prop, name = sys.argv[1:4]
    tier = 'quick'
    checks = [prop]
    args = sys.argv[4:]
    for i, a in enumerate(args):
        if a == '--tier':
            tier = args[i + 1]
        if a == '--checks':
            checks = args[i + 1].split(',')
    patch = os.path.join(src, 'patch.diff')
    demos = [f for f in glob.glob(os.path.join(src, '*')) if os.path.basename(f) not in ('patch.diff', 'meta.txt')]
    meta_txt = open(os.path.join(src, 'meta.txt')).read() if os.path.exists(os.path.join(src, 'meta.txt')) else ''
    wt = tempfile.mkdtemp(prefix='seedwt-')
    os.rmdir(wt)
    result = {'property': prop, 'name': name, 'source': 'independent sub-agent given only the property text and a scratch worktree',
              'needs_to_manifest': meta_txt, 'ran': []}
    try:
        rc, out = run(['git', '-C', '/repo', 'worktree', 'add', '--detach', wt, 'HEAD'], '/')
        assert rc == 0, out
        head = subprocess.check_output(['git', '-C', '/repo', 'rev-parse', '--short', 'HEAD'], text=True).strip()
        result['repo_commit'] = head
        # demo without the patch
        def run_demo(label):
            outs = []
            ok = True
            for d in demos:
                if d.endswith('_test.go'):
                    dst = os.path.join(wt, 'zz_seeded_' + os.path.basename(d))
                    shutil.copy(d, dst)
            race = '-race' if re.search(r'go test[^\n]*-race', meta_txt) else None
            cmd = ['go', 'test', '-vet=off', '-count=1', '-run', 'TestSeeded|TestDemo|Seeded', './...']
            if race:
                cmd.insert(2, race)
            rc, out = run(cmd, wt)
            outs.append(out[-1500:])
            for f in glob.glob(os.path.join(wt, 'zz_seeded_*')):
                os.remove(f)
            result['ran'].append({'what': label + ': ' + ' '.join(cmd), 'exit': rc, 'tail': out[-600:]})
            return rc, out
        rc0, out0 = run_demo('demonstration WITHOUT the change')
        rc, out = run(['git', 'apply', patch], wt)
        result['ran'].append({'what': 'git apply patch.diff', 'exit': rc, 'tail': out[-300:]})
        if rc != 0:
            result['kept'] = False
            result['why_not_kept'] = 'patch does not apply'
            print(json.dumps(result, indent=1)); return
        rcb, outb = run(['go', 'build', './...'], wt)
        rct, outt = run(['go', 'test', '-vet=off', '-count=1', './...'], wt)
        result['ran'].append({'what': 'existing test suite WITH the change: go test -vet=off -count=1 ./...', 'exit': rct, 'tail': outt[-300:]})
        rc1, out1 = run_demo('demonstration WITH the change')
        confirmed = (rcb == 0 and rct == 0 and rc1 != 0 and rc0 == 0 and 'no tests to run' not in out0)
        result['confirmed'] = confirmed
        result['demo_without_change_passes'] = (rc0 == 0)
        result['demo_with_change_fails'] = (rc1 != 0)
        result['existing_tests_pass_with_change'] = (rct == 0)
        # checks against the patched copy
        copy = tempfile.mkdtemp(prefix='seedcopy-')
        for f in os.listdir(wt):
            if f.endswith('.go') or f in ('go.mod', 'go.sum'):
                shutil.copy(os.path.join(wt, f), copy)
        shutil.copy('/repo/go.mod', copy)  # go commands may have rewritten it
        detected = {}
        for c in checks:
            t0 = time.time()
            env = dict(ENV, VERIF_REPO=copy, VERIF_REPLAY_DIR=os.path.join('/verif/seeded', name, 'replays'), VERIF_EVIDENCE_DIR=os.path.join(copy, 'evidence'))
            rc, out = run(['/verif/check', c, tier], '/verif', timeout=7200, env=env)
            classes = re.findall(r'^violation class (.*?) \(', out, re.M)
            detected[c] = {'exit': rc, 'violation_lines': len(re.findall(r'^VIOLATION ', out, re.M)), 'classes': classes[:6], 'wall_s': round(time.time() - t0, 1)}
            if rc == 2:
                detected[c]['machinery'] = out[-800:]
        shutil.rmtree(copy, ignore_errors=True)
        result['checks'] = detected
        result['tier'] = tier
        result['detected_by'] = [c for c, d in detected.items() if d['exit'] == 1]
        dst = os.path.join('/verif/seeded', name)
        if confirmed:
            os.makedirs(dst, exist_ok=True)
            shutil.copy(patch, os.path.join(dst, 'patch.diff'))
            for d in demos:
                if os.path.isfile(d):
                    shutil.copy(d, dst)
            if meta_txt:
                open(os.path.join(dst, 'meta.txt'), 'w').write(meta_txt)
            json.dump(result, open(os.path.join(dst, 'meta.json'), 'w'), indent=1)
        result['kept'] = confirmed
        print(json.dumps({k: result[k] for k in ('name', 'property', 'confirmed', 'kept', 'detected_by', 'checks')}, indent=1))
        if not confirmed:
            print(json.dumps(result['ran'], indent=1)[:3000])
    finally:
        subprocess.run(['git', '-C', '/repo', 'worktree', 'remove', '--force', wt], capture_output=True)
        shutil.rmtree(wt, ignore_errors=True)
        # replays of seeded runs live with the seeded change, not in /verif/replays
if __name__ == '__main__':
    main()
