#!/bin/sh
# Re-evaluates every kept seeded change under /verif/seeded against the current
# machinery (quick tier): confirms it again in a scratch worktree and runs the
# check(s) recorded in its meta.json. Prints one line per change.
# usage: tools/reeval_seeded.sh [name-prefix]
cd /verif
for d in seeded/${1:-}*/; do
  name=$(basename "$d")
  prop=$(python3 -c "import json;print(json.load(open('$d/meta.json'))['property'])")
  checks=$(python3 -c "import json;print(','.join(json.load(open('$d/meta.json'))['checks'].keys()))")
  src=$(mktemp -d /tmp/reeval-XXXX)
  cp "$d"/patch.diff "$src"/; cp "$d"/*_test.go "$src"/ 2>/dev/null; cp "$d"/meta.txt "$src"/ 2>/dev/null || python3 -c "import json;open('$src/meta.txt','w').write(json.load(open('$d/meta.json')).get('needs_to_manifest',''))"
  tools/seedeval.py "$src" "$prop" "$name" --checks "$checks" 2>&1 | python3 -c "
import sys,json
t=sys.stdin.read()
try:
    j=json.loads(t[t.index('{'):t.index('\n}')+2]); print(j['name'], 'confirmed', j['confirmed'], 'detected_by', j['detected_by'], {k:(v['exit'],v['classes'][:3],v['wall_s']) for k,v in j['checks'].items()})
except Exception as e: print('ERR', '$name', t[-600:])
"
  rm -rf "$src"
done
