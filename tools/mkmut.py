#!/usr/bin/env python3
"""mkmut.py <dir> <file> <old> <new> [<file> <old> <new> ...]
Make a scratch copy of /repo in <dir> with textual replacements (each <old> must occur exactly once),
then run the repository's own tests there. Used for sensitivity experiments only."""
import sys, os, shutil, subprocess
d = sys.argv[1]
shutil.rmtree(d, ignore_errors=True)
os.makedirs(d)
for f in os.listdir('/repo'):
    if f.endswith('.go') or f in ('go.mod', 'go.sum'):
        shutil.copy(os.path.join('/repo', f), d)
args = sys.argv[2:]
for i in range(0, len(args), 3):
    f, old, new = args[i:i+3]
    p = os.path.join(d, f)
    s = open(p).read()
    if s.count(old) != 1:
        sys.exit("pattern occurs %d times in %s: %r" % (s.count(old), f, old))
    open(p, 'w').write(s.replace(old, new))
env = dict(os.environ, GOFLAGS='-mod=mod', GOPROXY='off', GOSUMDB='off', GOTOOLCHAIN='local')
r = subprocess.run(['go', 'test', '-vet=off', '-count=1', './...'], cwd=d, env=env, capture_output=True, text=True)
print(r.stdout.strip()[-300:], r.stderr.strip()[-600:])
sys.exit(r.returncode)
