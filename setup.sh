#!/bin/sh
# Builds the framework from files on disk only (offline).
set -e
cd "$(dirname "$0")"
export GOFLAGS=-mod=mod GOPROXY=off GOSUMDB=off GOTOOLCHAIN=local GOWORK=off
mkdir -p bin evidence replays
(cd sim && go build -o ../bin/verifsim ./cmd/verifsim && go build -o ../bin/instrument ./cmd/instrument)
echo "verifsim and instrument built"
