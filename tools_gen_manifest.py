#!/usr/bin/env python3
# Generates /verif/MANIFEST.json from manifest_checks.json + the tables below
# (kept in one place so the file stays valid).
import json

NA = {
 "C01": "Totality of bytes -> tree-or-error is a pure function of one input: no schedule, clock, fault, other party or history for a simulator to vary (the simulator's step counter is only a hang watchdog). Deciding it means enumerating inputs, a different technique.",
 "C02": "Grammar conformance of token sequence -> tree: pure function of the text; nothing to schedule or fail.",
 "C03": "Totality of (tree, data) -> value-or-error over all programs: pure; panics met inside claimed scenarios are attributed only where that property's own statement demands an error (C11).",
 "C04": "Exactness of decimal arithmetic: pure function of operand pairs.",
 "C05": "Order/equality laws: pure relations between results on the same operands.",
 "C06": "Truthiness and selection truth table: pure; 'only the selected branch is evaluated' is exercised inside C07/C11 (zero host invocations in the unselected branch) but the table itself is an input-space claim.",
 "C10": "Field analysis is a pure function of the tree (map order only permutes an output the statement treats as a set); sufficiency compares two pure evaluations.",
 "C12": "Numeric-literal scanning: pure function of the spelling.",
 "C13": "String-literal escaping round trip: pure function of the text.",
 "C14": "Token tiling / longest match / code-point classes: pure function of bytes.",
 "C15": "Source ranges and line/column arithmetic: pure functions of text and offset (the lazily cached line starts matter only to C09, where they are handled).",
 "C16": "Name and member lookup: pure function of (data shape, path); no other party beyond reading the map.",
 "C17": "String-builtin laws: pure functions of their arguments.",
 "C18": "Numeric builtins and bit operators: pure functions of their arguments.",
}
CHECKS = json.load(open('/verif/manifest_checks.json'))
PENDING = json.load(open('/verif/manifest_pending.json'))
claimed = {c["property_id"] for c in CHECKS}
m = {
 "version": 1,
 "setup_cmd": "./setup.sh",
 "hooks": {
  "guard": "none in /repo: every seam is a build-time rewrite of a scratch copy of /repo's current working tree (bin/instrument), so the shipped sources carry no hook and no build tag",
  "enable": "each check copies /repo/*.go go.mod go.sum to a mktemp directory, runs bin/instrument over the copy (yield call before every statement; time.Now, map iteration, reflect MapRange/MapKeys, sync.Map.Range, time.LoadLocation, Mutex/Once routed through the copied-in simhook package), runs the repository's own tests on the instrumented copy with hooks inactive, then builds /verif/worker against it (with -race for C09)",
  "baseline_off_cmd": "cd /repo && GOFLAGS=-mod=mod GOPROXY=off GOSUMDB=off go test -json -vet=off -count=1 ./...",
  "source_commits": [],
  "add_only": True,
 },
 "engines": [
  {"name": "formulasim", "path": "/verif/sim + /verif/worker", "serves_properties": sorted(claimed),
   "kind_free_text": "deterministic simulator: source instrumenter (seams), token scheduler over real goroutines, choice tape (one seed = one execution), simulated clock / zone database / host functions, reference models, out-of-process tape shrinker"}
 ],
 "checks": CHECKS,
 "not_applicable": [{"property_id": k, "reason": v} for k, v in sorted(NA.items()) if k not in claimed]
                   + [p for p in PENDING if p["property_id"] not in claimed],
 "notes": "Technique family: deterministic simulation with fault injection. Exit 2 (never a VIOLATION line) for build, instrumenter, determinism, watchdog or reach trouble. VERIF_SEED selects the batch seed; VERIF_REPO=<dir> points the checks at another copy of the repository (used for the seeded-defect experiments).",
}
json.dump(m, open('/verif/MANIFEST.json', 'w'), indent=1)
print("MANIFEST.json written:", len(CHECKS), "checks,", len(m["not_applicable"]), "not applicable")
