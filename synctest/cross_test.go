package crosscheck

// C19 cross-check engine (go1.26.8, testing/synctest): the UNINSTRUMENTED
// library inside synctest bubbles. The rewrite of time.Now is the one place
// where the instrumented copy differs semantically from /repo; here the real
// time.Now of the unmodified package reads the bubble's fake clock, which this
// test advances with time.Sleep by seed-derived amounts.

import (
	"context"
	"encoding/json"
	"fmt"
	"os"
	"strconv"
	"testing"
	"testing/synctest"
	"time"

	"github.com/aundis/formula"
)

func envInt(k string, d int64) int64 {
	if v := os.Getenv(k); v != "" {
		if n, err := strconv.ParseInt(v, 10, 64); err == nil {
			return n
		}
		if n, err := strconv.ParseUint(v, 10, 64); err == nil {
			return int64(n)
		}
	}
	return d
}

func sm(x *uint64) uint64 {
	*x += 0x9e3779b97f4a7c15
	z := *x
	z = (z ^ (z >> 30)) * 0xbf58476d1ce4e5b9
	z = (z ^ (z >> 27)) * 0x94d049bb133111eb
	return z ^ (z >> 31)
}

var crossZones = []string{"UTC", "Asia/Shanghai", "America/New_York", "Europe/London", "Australia/Lord_Howe", "Asia/Kathmandu", "America/Havana", "Pacific/Apia"}

func evalOne(r *formula.Runner, text string) (v interface{}, err error) {
	defer func() {
		if p := recover(); p != nil {
			err = fmt.Errorf("panic: %v", p)
		}
	}()
	src, perr := formula.ParseSourceCode([]byte(text))
	if perr != nil {
		return nil, perr
	}
	return r.Resolve(context.Background(), src.Expression)
}

func TestCross(t *testing.T) {
	seed := uint64(envInt("VERIF_SEED", 1))
	from, to := envInt("CROSS_FROM", 0), envInt("CROSS_TO", 100)
	type viol struct {
		Bubble int64  `json:"bubble"`
		Class  string `json:"class"`
		Detail string `json:"detail"`
	}
	var viols []viol
	reads, crossings, zonesUsed := 0, 0, map[string]int{}
	var minClock, maxClock time.Time
	savedLocal := time.Local
	defer func() { time.Local = savedLocal }()
	for i := from; i < to; i++ {
		st := seed*0x9e3779b97f4a7c15 ^ uint64(i+1)*0xd1b54a32d192ed03
		zn := crossZones[sm(&st)%uint64(len(crossZones))]
		loc, err := time.LoadLocation(zn)
		if err != nil {
			continue
		}
		zonesUsed[zn]++
		synctest.Test(t, func(t *testing.T) {
			time.Local = loc
			r := formula.NewRunner()
			steps := 1 + int(sm(&st)%6)
			for k := 0; k < steps; k++ {
				var d time.Duration
				switch sm(&st) % 6 {
				case 0:
					d = time.Duration(sm(&st) % 1000)
				case 1:
					d = time.Duration(sm(&st)%86400) * time.Second
				case 2:
					d = time.Duration(sm(&st)%(40*365)) * 24 * time.Hour
				case 3, 4: // to just before the next local midnight
					now := time.Now().In(loc)
					f := civilOf(now)
					next := resolveLocal((daysFromCivil(f.Y, f.M, f.D)+1)*86400, loc)[0]
					d = time.Unix(next, 0).Sub(now) - time.Duration(1+sm(&st)%2000)*time.Millisecond
					if d < 0 {
						d = 0
					}
				default:
					d = time.Duration(sm(&st)%3600000) * time.Millisecond
				}
				if time.Now().Add(d).Year() > 2250 {
					d = 0
				}
				before := civilOf(time.Now().In(loc))
				time.Sleep(d)
				want := time.Now()
				if after := civilOf(want.In(loc)); after.D != before.D {
					crossings++
				}
				if minClock.IsZero() || want.Before(minClock) {
					minClock = want
				}
				if want.After(maxClock) {
					maxClock = want
				}
				v, err := evalOne(r, "now()")
				reads++
				got, ok := v.(time.Time)
				if err != nil || !ok || !got.Equal(want) || got.Nanosecond() != want.Nanosecond() {
					viols = append(viols, viol{i, "synctest/now", fmt.Sprintf("now() = %v err=%v, bubble clock %v (zone %s)", v, err, want, zn)})
					return
				}
				v, err = evalOne(r, "toDay()")
				reads++
				got, ok = v.(time.Time)
				if err != nil || !ok || !containsInt64(midnightOf(want, loc), got.Unix()) || got.Nanosecond() != 0 || got.Location().String() != loc.String() {
					viols = append(viols, viol{i, "synctest/today", fmt.Sprintf("toDay() = %v err=%v, bubble clock %v (zone %s)", v, err, want.In(loc), zn)})
					return
				}
			}
		})
	}
	sum := map[string]interface{}{"from": from, "to": to, "clock_reads_checked": reads, "midnight_crossings_by_sleep": crossings, "zones": zonesUsed, "violations": viols}
	if !minClock.IsZero() {
		sum["clock_min"], sum["clock_max"] = minClock.UTC().Format(time.RFC3339), maxClock.UTC().Format(time.RFC3339)
	}
	b, _ := json.Marshal(sum)
	fmt.Println("CROSSSUMMARY " + string(b))
}

func midnightOf(x time.Time, loc *time.Location) []int64 {
	f := civilOf(x.In(loc))
	return resolveLocal(daysFromCivil(f.Y, f.M, f.D)*86400, loc)
}
