package crosscheck

// C19 cross-check engine (go1.26.8, testing/synctest): the UNINSTRUMENTED
// library inside synctest bubbles. The rewrite of time.Now is the one place
// where the instrumented copy differs semantically from /repo; here the real
// time.Now of the unmodified package reads the bubble's fake clock, which this
// test advances with time.Sleep by seed-derived amounts.
//
// The engine is built twice, for the sandbox's own architecture and for
// GOARCH=386: the width of Go's int is a property of the platform the library
// runs on, a source of variation the instrumented workers (amd64 only) cannot
// reach. Besides now()/toDay() every bubble therefore also reads the eight field
// extractors on the bubble clock and builds one far civil date (years 1-9999)
// whose fields and Unix milliseconds are compared with days-from-civil
// arithmetic done in int64.

import (
	"context"
	"encoding/json"
	"fmt"
	"os"
	"runtime"
	"strconv"
	"testing"
	"testing/synctest"
	"time"

	"github.com/aundis/formula"
	"github.com/ericlagergren/decimal"
)

// numIs: a number inside an array result (a *decimal.Big; float64 tolerated) equals want.
func numIs(v interface{}, want int64) bool {
	switch x := v.(type) {
	case *decimal.Big:
		return x != nil && x.Cmp(decimal.New(want, 0)) == 0
	case float64:
		return x == float64(want)
	}
	return false
}

func envInt(k string, d int64) int64 {
	if v := os.Getenv(k); v != "" {
		if n, err := strconv.ParseInt(v, 10, 64); err == nil {
			return n
		}
		if n, err := strconv.ParseUint(v, 10, 64); err == nil {
			return int64(n)
		}
	}
	return d
}

func sm(x *uint64) uint64 {
	*x += 0x9e3779b97f4a7c15
	z := *x
	z = (z ^ (z >> 30)) * 0xbf58476d1ce4e5b9
	z = (z ^ (z >> 27)) * 0x94d049bb133111eb
	return z ^ (z >> 31)
}

var crossZones = []string{"UTC", "Asia/Shanghai", "America/New_York", "Europe/London", "Australia/Lord_Howe", "Asia/Kathmandu", "America/Havana", "Pacific/Apia"}

func evalOne(r *formula.Runner, text string) (v interface{}, err error) {
	defer func() {
		if p := recover(); p != nil {
			err = fmt.Errorf("panic: %v", p)
		}
	}()
	src, perr := formula.ParseSourceCode([]byte(text))
	if perr != nil {
		return nil, perr
	}
	return r.Resolve(context.Background(), src.Expression)
}

func TestCross(t *testing.T) {
	seed := uint64(envInt("VERIF_SEED", 1))
	from, to := envInt("CROSS_FROM", 0), envInt("CROSS_TO", 100)
	type viol struct {
		Bubble int64  `json:"bubble"`
		Class  string `json:"class"`
		Detail string `json:"detail"`
	}
	var viols []viol
	reads, crossings, farDates, zonesUsed := 0, 0, 0, map[string]int{}
	var minClock, maxClock time.Time
	savedLocal := time.Local
	defer func() { time.Local = savedLocal }()
	for i := from; i < to; i++ {
		st := seed*0x9e3779b97f4a7c15 ^ uint64(i+1)*0xd1b54a32d192ed03
		zn := crossZones[sm(&st)%uint64(len(crossZones))]
		loc, err := time.LoadLocation(zn)
		if err != nil {
			continue
		}
		zonesUsed[zn]++
		synctest.Test(t, func(t *testing.T) {
			time.Local = loc
			r := formula.NewRunner()
			steps := 1 + int(sm(&st)%6)
			for k := 0; k < steps; k++ {
				var d time.Duration
				switch sm(&st) % 6 {
				case 0:
					d = time.Duration(sm(&st) % 1000)
				case 1:
					d = time.Duration(sm(&st)%86400) * time.Second
				case 2:
					d = time.Duration(sm(&st)%(40*365)) * 24 * time.Hour
				case 3, 4: // to just before the next local midnight
					now := time.Now().In(loc)
					f := civilOf(now)
					next := resolveLocal((daysFromCivil(f.Y, f.M, f.D)+1)*86400, loc)[0]
					d = time.Unix(next, 0).Sub(now) - time.Duration(1+sm(&st)%2000)*time.Millisecond
					if d < 0 {
						d = 0
					}
				default:
					d = time.Duration(sm(&st)%3600000) * time.Millisecond
				}
				if time.Now().Add(d).Year() > 2250 {
					d = 0
				}
				before := civilOf(time.Now().In(loc))
				time.Sleep(d)
				want := time.Now()
				if after := civilOf(want.In(loc)); after.D != before.D {
					crossings++
				}
				if minClock.IsZero() || want.Before(minClock) {
					minClock = want
				}
				if want.After(maxClock) {
					maxClock = want
				}
				v, err := evalOne(r, "now()")
				reads++
				got, ok := v.(time.Time)
				if err != nil || !ok || !got.Equal(want) || got.Nanosecond() != want.Nanosecond() {
					viols = append(viols, viol{i, "synctest/now", fmt.Sprintf("now() = %v err=%v, bubble clock %v (zone %s)", v, err, want, zn)})
					return
				}
				v, err = evalOne(r, "toDay()")
				reads++
				got, ok = v.(time.Time)
				if err != nil || !ok || !containsInt64(midnightOf(want, loc), got.Unix()) || got.Nanosecond() != 0 || got.Location().String() != loc.String() {
					viols = append(viols, viol{i, "synctest/today", fmt.Sprintf("toDay() = %v err=%v, bubble clock %v (zone %s)", v, err, want.In(loc), zn)})
					return
				}
				// the field extractors on the bubble clock (it does not move between the calls)
				text := "[millSecond(now()), year(now()), month(now()), day(now()), hour(now()), minute(now()), second(now()), weekDay(now())]"
				v, err = evalOne(r, text)
				reads++
				arr, aok := v.([]interface{})
				if err != nil || !aok || len(arr) != 8 {
					viols = append(viols, viol{i, "synctest/extract-failed", fmt.Sprintf("%s = %v err=%v (zone %s)", text, v, err, zn)})
					return
				}
				f := civilOf(want.In(loc))
				wantF := []int64{want.Unix()*1000 + int64(want.Nanosecond())/1000000, f.Y, f.M, f.D, f.h, f.m, f.s, f.wd}
				for j, nm := range []string{"millSecond", "year", "month", "day", "hour", "minute", "second", "weekDay"} {
					if !numIs(arr[j], wantF[j]) {
						viols = append(viols, viol{i, "synctest/field/" + nm, fmt.Sprintf("%s(now()) = %v, calendar oracle %d, bubble clock %v (zone %s, %s)", nm, arr[j], wantF[j], want.In(loc), zn, runtime.GOARCH)})
						return
					}
				}
				// one far civil date: local midnight, fields, Unix milliseconds
				y, mo, dd := int64(1+sm(&st)%9999), int64(1+sm(&st)%12), int64(1+sm(&st)%28)
				text = fmt.Sprintf("$d = date(%d, %d, %d), [millSecond($d), year($d), month($d), day($d), weekDay($d), hour($d)]", y, mo, dd)
				v, err = evalOne(r, text)
				farDates++
				arr, aok = v.([]interface{})
				cands := resolveLocal(daysFromCivil(y, mo, dd)*86400, loc)
				if err != nil || !aok || len(arr) != 6 || len(cands) == 0 {
					viols = append(viols, viol{i, "synctest/date-failed", fmt.Sprintf("%s = %v err=%v (zone %s)", text, v, err, zn)})
					return
				}
				okMs := false
				var at int64
				for _, c := range cands {
					if numIs(arr[0], c*1000) {
						okMs, at = true, c
					}
				}
				if !okMs {
					viols = append(viols, viol{i, "synctest/date", fmt.Sprintf("%s: millSecond = %v, local midnight is at Unix second(s) %v (zone %s, %s)", text, arr[0], cands, zn, runtime.GOARCH)})
					return
				}
				g := civilOf(time.Unix(at, 0).In(loc))
				// the fields of the instant the library chose: where local midnight does not exist
				// (a zone that springs forward at 00:00) it may lie at 23:00 of the day before
				wantG := []int64{g.Y, g.M, g.D, g.wd, g.h}
				for j, nm := range []string{"year", "month", "day", "weekDay", "hour"} {
					if !numIs(arr[j+1], wantG[j]) {
						viols = append(viols, viol{i, "synctest/field/" + nm, fmt.Sprintf("%s: %s = %v, calendar oracle %d (zone %s, %s)", text, nm, arr[j+1], wantG[j], zn, runtime.GOARCH)})
						return
					}
				}
			}
		})
	}
	sum := map[string]interface{}{"from": from, "to": to, "clock_reads_checked": reads, "midnight_crossings_by_sleep": crossings, "far_dates_checked": farDates, "goarch": runtime.GOARCH, "int_bits": strconv.IntSize, "zones": zonesUsed, "violations": viols}
	if !minClock.IsZero() {
		sum["clock_min"], sum["clock_max"] = minClock.UTC().Format(time.RFC3339), maxClock.UTC().Format(time.RFC3339)
	}
	b, _ := json.Marshal(sum)
	fmt.Println("CROSSSUMMARY " + string(b))
}

func midnightOf(x time.Time, loc *time.Location) []int64 {
	f := civilOf(x.In(loc))
	return resolveLocal(daysFromCivil(f.Y, f.M, f.D)*86400, loc)
}
