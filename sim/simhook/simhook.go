// Package simhook is the seam package of the deterministic simulator.
//
// It is copied into the scratch copy of aundis/formula as
// github.com/aundis/formula/simhook and referenced by the calls the
// instrumenter inserts. With no hook installed every function here behaves
// exactly like the construct it replaced (Y is a no-op, Now is time.Now, map
// iteration visits every entry once), so the repository's own tests pass on the
// instrumented copy.
//
// Nothing in here draws randomness or reads a clock on its own: all decisions
// come from the hooks the worker installs.
package simhook

import (
	"fmt"
	"reflect"
	"runtime"
	"sort"
	"sync"
	"sync/atomic"
	"time"
	"unsafe"
)

// ---------------------------------------------------------------- yield

// YHook is called at every instrumented statement. It is written once by the
// worker before any task goroutine exists.
var YHook func(site int)

//go:norace
func Y(site int) {
	if h := YHook; h != nil {
		h(site)
	}
}

// ---------------------------------------------------------------- clock

var NowHook func() time.Time

func Now() time.Time {
	if h := NowHook; h != nil {
		return h()
	}
	return time.Now()
}

func Since(t time.Time) time.Duration { return Now().Sub(t) }
func Until(t time.Time) time.Duration { return t.Sub(Now()) }

// LoadLocationHook only observes; the real time.LoadLocation always runs.
var LoadLocationHook func(name string, loc *time.Location, err error)

func LoadLocation(name string) (*time.Location, error) {
	loc, err := time.LoadLocation(name)
	if h := LoadLocationHook; h != nil {
		h(name, loc, err)
	}
	return loc, err
}

// ---------------------------------------------------------------- map order

// PermHook returns a permutation of 0..n-1 for the map iteration at hand.
// nil means: sorted key order.
var PermHook func(n int) []int

func order(n int) []int {
	if h := PermHook; h != nil && n > 1 {
		p := h(n)
		if len(p) == n {
			return p
		}
	}
	p := make([]int, n)
	for i := range p {
		p[i] = i
	}
	return p
}

func keyString(v interface{}) string { return fmt.Sprintf("%T|%v", v, v) }

// Keys returns the keys of m in simulator-chosen order.
func Keys[M ~map[K]V, K comparable, V any](m M) []K {
	ks := make([]K, 0, len(m))
	for k := range m {
		ks = append(ks, k)
	}
	ss := make([]string, len(ks))
	for i, k := range ks {
		ss[i] = keyString(k)
	}
	idx := make([]int, len(ks))
	for i := range idx {
		idx[i] = i
	}
	sort.SliceStable(idx, func(a, b int) bool { return ss[idx[a]] < ss[idx[b]] })
	sorted := make([]K, len(ks))
	for i, j := range idx {
		sorted[i] = ks[j]
	}
	out := make([]K, len(ks))
	for i, j := range order(len(ks)) {
		out[i] = sorted[j]
	}
	return out
}

// MapKeys is (reflect.Value).MapKeys in simulator-chosen order.
func MapKeys(v reflect.Value) []reflect.Value {
	ks := v.MapKeys()
	ss := make([]string, len(ks))
	for i, k := range ks {
		if k.CanInterface() {
			ss[i] = keyString(k.Interface())
		} else {
			ss[i] = k.String()
		}
	}
	idx := make([]int, len(ks))
	for i := range idx {
		idx[i] = i
	}
	sort.SliceStable(idx, func(a, b int) bool { return ss[idx[a]] < ss[idx[b]] })
	sorted := make([]reflect.Value, len(ks))
	for i, j := range idx {
		sorted[i] = ks[j]
	}
	out := make([]reflect.Value, len(ks))
	for i, j := range order(len(ks)) {
		out[i] = sorted[j]
	}
	return out
}

// MapIter mimics *reflect.MapIter for the methods the code uses.
type MapIter struct {
	m    reflect.Value
	keys []reflect.Value
	i    int
}

func MapRange(v reflect.Value) *MapIter {
	return &MapIter{m: v, keys: MapKeys(v), i: -1}
}

func (it *MapIter) Next() bool {
	for {
		it.i++
		if it.i >= len(it.keys) {
			return false
		}
		// entries deleted during iteration are not produced, as in Go
		if it.m.MapIndex(it.keys[it.i]).IsValid() {
			return true
		}
	}
}
func (it *MapIter) Key() reflect.Value   { return it.keys[it.i] }
func (it *MapIter) Value() reflect.Value { return it.m.MapIndex(it.keys[it.i]) }
func (it *MapIter) Reset(v reflect.Value) {
	it.m, it.keys, it.i = v, MapKeys(v), -1
}

// SyncMapRange is (*sync.Map).Range in simulator-chosen order.
func SyncMapRange(m *sync.Map, f func(key, value any) bool) {
	type kv struct{ k, v any }
	var all []kv
	m.Range(func(k, v any) bool { all = append(all, kv{k, v}); return true })
	sort.SliceStable(all, func(a, b int) bool { return keyString(all[a].k) < keyString(all[b].k) })
	for _, j := range order(len(all)) {
		if !f(all[j].k, all[j].v) {
			return
		}
	}
}

// ---------------------------------------------------------------- locks

// BlockHook is called while a cooperative lock cannot be taken; the scheduler
// must let another task run. nil (no simulator) means: block for real.
var BlockHook func()

type tryLocker interface {
	TryLock() bool
	Lock()
}
type tryRLocker interface {
	TryRLock() bool
	RLock()
}

func Lock(l tryLocker) {
	if BlockHook == nil {
		l.Lock()
		return
	}
	for !l.TryLock() {
		BlockHook()
	}
}

func RLock(l tryRLocker) {
	if BlockHook == nil {
		l.RLock()
		return
	}
	for !l.TryRLock() {
		BlockHook()
	}
}

var onceRunning [64]*sync.Once // tiny open-addressed set, touched only by the token holder

//go:norace
func onceBusy(o *sync.Once) bool {
	for _, p := range onceRunning {
		if p == o {
			return true
		}
	}
	return false
}

//go:norace
func onceSet(o *sync.Once, on bool) {
	for i, p := range onceRunning {
		if on && p == nil {
			onceRunning[i] = o
			return
		}
		if !on && p == o {
			onceRunning[i] = nil
			return
		}
	}
}

// OnceDo is (*sync.Once).Do that never blocks the token scheduler: a task that
// finds another task inside the same Once yields until that one is done.
func OnceDo(o *sync.Once, f func()) {
	if BlockHook == nil {
		o.Do(f)
		return
	}
	for onceBusy(o) {
		BlockHook()
	}
	o.Do(func() {
		onceSet(o, true)
		defer onceSet(o, false)
		f()
	})
}

// ---------------------------------------------------------------- channels

// Send / Recv are channel operations that never block the token scheduler: while
// the operation cannot proceed the task lets another one run.
func Send[T any](ch chan<- T, v T) {
	if BlockHook == nil {
		ch <- v
		return
	}
	for {
		select {
		case ch <- v:
			return
		default:
			BlockHook()
		}
	}
}

func Recv[T any](ch <-chan T) T {
	v, _ := Recv2(ch)
	return v
}

func Recv2[T any](ch <-chan T) (T, bool) {
	if BlockHook == nil {
		v, ok := <-ch
		return v, ok
	}
	for {
		select {
		case v, ok := <-ch:
			return v, ok
		default:
			BlockHook()
		}
	}
}

// ---------------------------------------------------------------- goroutines

// GoHook registers a function as a new task of the simulator's scheduler.
var GoHook func(run func())

// GoCall is `go fn(args...)`: function value and arguments are evaluated by the
// caller now, as the go statement does; only the call itself happens in the new
// goroutine, which the simulator schedules like any other task.
func GoCall(fn interface{}, args ...interface{}) {
	fv := reflect.ValueOf(fn)
	ft := fv.Type()
	in := make([]reflect.Value, len(args))
	for i, a := range args {
		var pt reflect.Type
		switch {
		case ft.IsVariadic() && i >= ft.NumIn()-1:
			pt = ft.In(ft.NumIn() - 1).Elem()
		default:
			pt = ft.In(i)
		}
		if a == nil {
			in[i] = reflect.Zero(pt)
		} else {
			in[i] = reflect.ValueOf(a)
		}
	}
	run := func() { fv.Call(in) }
	if h := GoHook; h != nil {
		h(run)
		return
	}
	go run()
}

func wgCounter(wg *sync.WaitGroup) int32 {
	f := reflect.ValueOf(wg).Elem().FieldByName("state")
	if !f.IsValid() || !f.CanAddr() {
		return 0
	}
	p := (*uint64)(unsafe.Pointer(f.UnsafeAddr())) // atomic.Uint64: the value is its only sized field
	return int32(atomic.LoadUint64(p) >> 32)
}

// WGWait is (*sync.WaitGroup).Wait that lets other tasks run while the counter is not zero.
func WGWait(wg *sync.WaitGroup) {
	if BlockHook == nil {
		wg.Wait()
		return
	}
	for wgCounter(wg) > 0 {
		BlockHook()
	}
	wg.Wait() // does not block any more; keeps the real happens-before edge
}

// Poll is what a blocking select does between two looks at its channels.
func Poll() {
	if BlockHook != nil {
		BlockHook()
		return
	}
	runtimeGosched()
}

func runtimeGosched() { runtime.Gosched() }
