package main

import (
	"fmt"
	"os"
	"sync"
	"time"
)

// cmdDeterminism: prove determinism on a large sample - many batch seeds, every
// chunk executed in separate processes at GOMAXPROCS 1, 4 and 16, per-run event
// hashes compared.
func cmdDeterminism(prop string, seeds, runsPerSeed int) int {
	cfg, ok := props[prop]
	if !ok {
		fmt.Fprintln(os.Stderr, "unknown property")
		return 2
	}
	scratch, err := os.MkdirTemp("", "verifsim-det-")
	if err != nil {
		return 2
	}
	cleanupOnSignal(&scratch)
	defer os.RemoveAll(scratch)
	b := &build{scratch: scratch, race: cfg.Race, skipTests: true}
	if err := b.run(); err != nil {
		fmt.Fprintln(os.Stderr, "MACHINERY: build failed:", err)
		return 2
	}
	type res struct {
		seed   uint64
		hashes map[int][]string
		err    error
	}
	out := make([]res, seeds)
	var wg sync.WaitGroup
	sem := make(chan struct{}, 5)
	for i := 0; i < seeds; i++ {
		wg.Add(1)
		go func(i int) {
			defer wg.Done()
			sem <- struct{}{}
			defer func() { <-sem }()
			seed := uint64(1000 + i*7919)
			c := &checker{cfg: cfg, tier: []string{"quick", "thorough"}[i%2], seed: seed, b: b, scratch: scratch, par: 1, thin: 1}
			out[i] = res{seed: seed, hashes: map[int][]string{}}
			for _, gmp := range []int{1, 4, 16} {
				jr := c.runWorker(gmp, 20*time.Minute, "-from", "0", "-to", fmt.Sprint(runsPerSeed), "-hashes", "-samples", "0")
				if jr.err != nil {
					out[i].err = jr.err
					return
				}
				out[i].hashes[gmp] = jr.res.RunHashes
			}
		}(i)
	}
	wg.Wait()
	bad, total := 0, 0
	for _, r := range out {
		if r.err != nil {
			fmt.Fprintln(os.Stderr, "MACHINERY:", r.err)
			return 2
		}
		for k := range r.hashes[1] {
			total++
			if r.hashes[1][k] != r.hashes[4][k] || r.hashes[1][k] != r.hashes[16][k] {
				bad++
				if bad < 10 {
					fmt.Printf("DIVERGENCE seed=%d run=%d: %s / %s / %s\n", r.seed, k, r.hashes[1][k], r.hashes[4][k], r.hashes[16][k])
				}
			}
		}
	}
	fmt.Printf("determinism self-test %s: %d batch seeds x %d runs x 3 processes (GOMAXPROCS 1, 4, 16): %d runs compared, %d divergent\n", prop, seeds, runsPerSeed, total, bad)
	if bad > 0 {
		return 1
	}
	return 0
}
