package main

import (
	"bytes"
	"encoding/json"
	"fmt"
	"os"
	"os/exec"
	"path/filepath"
	"strings"
)

// build makes the instrumented scratch copy of the repository's current
// working tree and the worker binary linked against it.
type build struct {
	scratch   string
	race      bool
	keep      bool
	worker    string
	sites     string
	formula   string
	modPath   string
	instr     instrReport
	skipTests bool
	zoneinfo  string
}

type instrReport struct {
	Package string `json:"package"`
	Sites   []struct {
		ID   int    `json:"id"`
		File string `json:"file"`
		Line int    `json:"line"`
		Func string `json:"func"`
		Hot  bool   `json:"hot"`
	} `json:"sites"`
	Seams []struct {
		Kind string `json:"kind"`
		File string `json:"file"`
		Line int    `json:"line"`
	} `json:"seams"`
	Unsupported []struct {
		Kind string `json:"kind"`
		File string `json:"file"`
		Line int    `json:"line"`
	} `json:"unsupported"`
	Globals []string `json:"globals"`
}

func goEnv() []string {
	env := os.Environ()
	out := env[:0:0]
	for _, e := range env {
		if strings.HasPrefix(e, "GOFLAGS=") || strings.HasPrefix(e, "GOPROXY=") || strings.HasPrefix(e, "GOSUMDB=") ||
			strings.HasPrefix(e, "GOTOOLCHAIN=") || strings.HasPrefix(e, "GO111MODULE=") || strings.HasPrefix(e, "GOWORK=") {
			continue
		}
		out = append(out, e)
	}
	return append(out, "GOFLAGS=-mod=mod", "GOPROXY=off", "GOSUMDB=off", "GOTOOLCHAIN=local", "GOWORK=off")
}

func runCmd(dir string, env []string, name string, args ...string) (string, error) {
	c := exec.Command(name, args...)
	c.Dir = dir
	c.Env = env
	var buf bytes.Buffer
	c.Stdout = &buf
	c.Stderr = &buf
	err := c.Run()
	return buf.String(), err
}

func copyFile(src, dst string) error {
	b, err := os.ReadFile(src)
	if err != nil {
		return err
	}
	return os.WriteFile(dst, b, 0o644)
}

type buildError struct {
	stage string
	out   string
	err   error
}

func (e *buildError) Error() string { return fmt.Sprintf("%s: %v\n%s", e.stage, e.err, e.out) }

func (b *build) run() error {
	if err := os.MkdirAll(b.scratch, 0o755); err != nil {
		return err
	}
	b.formula = filepath.Join(b.scratch, "formula")
	wdir := filepath.Join(b.scratch, "worker")
	os.RemoveAll(b.formula)
	os.RemoveAll(wdir)
	if err := os.MkdirAll(filepath.Join(b.formula, "simhook"), 0o755); err != nil {
		return err
	}
	if err := os.MkdirAll(wdir, 0o755); err != nil {
		return err
	}
	// 1. copy the current working tree (top-level package only: the module has one package)
	ents, err := os.ReadDir(repoDir)
	if err != nil {
		return err
	}
	for _, e := range ents {
		if e.IsDir() {
			continue
		}
		n := e.Name()
		if strings.HasSuffix(n, ".go") || n == "go.mod" || n == "go.sum" {
			if err := copyFile(filepath.Join(repoDir, n), filepath.Join(b.formula, n)); err != nil {
				return err
			}
		}
	}
	modBytes, err := os.ReadFile(filepath.Join(b.formula, "go.mod"))
	if err != nil {
		return err
	}
	for _, l := range strings.Split(string(modBytes), "\n") {
		if strings.HasPrefix(l, "module ") {
			b.modPath = strings.TrimSpace(strings.TrimPrefix(l, "module "))
		}
	}
	libModPath = b.modPath
	if b.modPath == "" {
		return fmt.Errorf("no module path in %s/go.mod", repoDir)
	}
	env := goEnv()
	// 2. the tree must compile before we touch it (otherwise: not a verdict)
	if out, err := runCmd(b.formula, env, "go", "build", "./..."); err != nil {
		return &buildError{"repository does not compile", out, err}
	}
	// 3. instrument
	if out, err := runCmd(b.formula, env, filepath.Join(verifDir, "bin", "instrument"), "-dir", b.formula); err != nil {
		return &buildError{"instrumenter", out, err}
	}
	b.sites = filepath.Join(b.formula, "sim_sites.json")
	sb, err := os.ReadFile(b.sites)
	if err != nil {
		return err
	}
	if err := json.Unmarshal(sb, &b.instr); err != nil {
		return err
	}
	if err := copyFile(filepath.Join(verifDir, "sim", "simhook", "simhook.go"), filepath.Join(b.formula, "simhook", "simhook.go")); err != nil {
		return err
	}
	// 4. guard on the instrumenter: the repository's own tests on the instrumented copy, hooks inactive
	if !b.skipTests {
		if out, err := runCmd(b.formula, env, "go", "test", "-vet=off", "-count=1", "./..."); err != nil {
			return &buildError{"repository tests fail on the instrumented copy (hooks inactive)", out, err}
		}
	}
	// 5. worker module
	went, err := os.ReadDir(filepath.Join(verifDir, "worker"))
	if err != nil {
		return err
	}
	for _, e := range went {
		if strings.HasSuffix(e.Name(), ".go") {
			if err := copyFile(filepath.Join(verifDir, "worker", e.Name()), filepath.Join(wdir, e.Name())); err != nil {
				return err
			}
		}
	}
	// dependency versions: exactly those of the repository
	var reqs []string
	inBlock := false
	for _, l := range strings.Split(string(modBytes), "\n") {
		t := strings.TrimSpace(l)
		switch {
		case strings.HasPrefix(t, "require ("):
			inBlock = true
		case inBlock && t == ")":
			inBlock = false
		case inBlock && t != "":
			reqs = append(reqs, t)
		case strings.HasPrefix(t, "require "):
			reqs = append(reqs, strings.TrimPrefix(t, "require "))
		}
	}
	gomod := "module simworker\n\ngo 1.18\n\nrequire " + b.modPath + " v0.0.0\n\nreplace " + b.modPath + " => ../formula\n\n"
	for _, r := range reqs {
		gomod += "require " + r + "\n"
	}
	if err := os.WriteFile(filepath.Join(wdir, "go.mod"), []byte(gomod), 0o644); err != nil {
		return err
	}
	copyFile(filepath.Join(b.formula, "go.sum"), filepath.Join(wdir, "go.sum"))
	args := []string{"build", "-trimpath", "-ldflags=-checklinkname=0", "-o", "worker"}
	if b.race {
		args = append(args, "-race")
	}
	args = append(args, ".")
	if out, err := runCmd(wdir, env, "go", args...); err != nil {
		return &buildError{"worker build", out, err}
	}
	b.worker = filepath.Join(wdir, "worker")
	b.zoneinfo = buildZoneDB(filepath.Join(b.scratch, "zoneinfo"))
	return nil
}

// buildZoneDB creates the simulated zone database directory the workers get as
// $ZONEINFO: intact copies of real zone files under names the system database
// does not have (so a lookup cannot fall back to the system copy), plus an
// empty, a truncated and a garbage file. Names that are absent are "missing".
func buildZoneDB(dir string) string {
	var src string
	for _, c := range []string{"/usr/share/zoneinfo", "/usr/share/lib/zoneinfo", "/usr/lib/locale/TZ"} {
		if _, err := os.Stat(filepath.Join(c, "Asia", "Shanghai")); err == nil {
			src = c
			break
		}
	}
	os.MkdirAll(filepath.Join(dir, "Sim"), 0o755)
	if src == "" {
		return dir
	}
	for name, real := range map[string]string{"Shanghai": "Asia/Shanghai", "NewYork": "America/New_York", "LordHowe": "Australia/Lord_Howe", "Kathmandu": "Asia/Kathmandu"} {
		copyFile(filepath.Join(src, real), filepath.Join(dir, "Sim", name))
	}
	os.WriteFile(filepath.Join(dir, "Sim", "Empty"), nil, 0o644)
	if b, err := os.ReadFile(filepath.Join(src, "America", "New_York")); err == nil {
		os.WriteFile(filepath.Join(dir, "Sim", "Torn"), b[:len(b)*2/5], 0o644)
	}
	g := make([]byte, 700)
	x := uint32(12345)
	for i := range g {
		x = x*1664525 + 1013904223
		g[i] = byte(x >> 24)
	}
	os.WriteFile(filepath.Join(dir, "Sim", "Garbage"), g, 0o644)
	return dir
}
