package main

import (
	"encoding/json"
	"fmt"
	"os"
	"path/filepath"
	"regexp"
	"sort"
	"strings"
	"sync"
	"time"
)

var libModPath = "github.com/aundis/formula"

var raceAccessRe = regexp.MustCompile(`^(Previous )?(atomic )?(read|write|Read|Write|Atomic read|Atomic write) at 0x[0-9a-f]+ by `)
var frameLocRe = regexp.MustCompile(`^\s+(\S+\.go):(\d+)`)

// raceClass derives a stable class from the first report of a race log:
// the innermost frames inside the code under test of the two accesses.
func raceClass(log string) string {
	cs := raceClasses(log)
	if len(cs) == 0 {
		return "race/unattributed"
	}
	return cs[0]
}

// raceClasses returns the class of every report in the log, in order.
func raceClasses(log string) []string {
	var out []string
	for _, rep := range strings.Split(log, "WARNING: DATA RACE") {
		if !strings.Contains(rep, " by goroutine") && !strings.Contains(rep, " by main goroutine") {
			continue
		}
		out = append(out, raceClassOne("WARNING: DATA RACE"+rep))
	}
	return out
}

func raceClassOne(log string) string {
	lines := strings.Split(log, "\n")
	var stacks [][]string
	cur := -1
	reports := 0
	for _, l := range lines {
		if strings.HasPrefix(l, "WARNING: DATA RACE") {
			reports++
			if reports > 1 {
				break
			}
			continue
		}
		if raceAccessRe.MatchString(l) {
			stacks = append(stacks, nil)
			cur = len(stacks) - 1
			continue
		}
		if strings.HasPrefix(l, "Goroutine ") || strings.HasPrefix(l, "==================") {
			cur = -1
			continue
		}
		if cur >= 0 {
			if m := frameLocRe.FindStringSubmatch(l); m != nil {
				stacks[cur] = append(stacks[cur], m[1]+":"+m[2])
			}
		}
	}
	var keys []string
	inLib := false
	isStd := func(f string) bool { // frames of the Go distribution: no dot in the first path element
		first := f
		if i := strings.Index(f, "/"); i >= 0 {
			first = f[:i]
		}
		return !strings.Contains(first, ".") && !strings.HasPrefix(f, "simworker/")
	}
	isLib := func(f string) bool {
		return (strings.Contains(f, libModPath+"/") || strings.Contains(f, libModPath+"@")) && !strings.Contains(f, "/simhook/")
	}
	for _, st := range stacks {
		// the access belongs to whoever made it: the innermost frame outside the Go distribution.
		// Harness code (worker, seam package) called from the library is still harness code.
		pick := ""
		for _, f := range st {
			if isStd(f) {
				continue
			}
			if isLib(f) || strings.Contains(f, "ericlagergren/decimal") {
				pick = f
				inLib = true
			}
			break
		}
		if pick == "" && len(st) > 0 {
			pick = st[0]
			for _, f := range st {
				if !isStd(f) {
					pick = f
					break
				}
			}
		}
		if i := strings.Index(pick, "@"); i >= 0 {
			if j := strings.Index(pick[i:], "/"); j >= 0 {
				pick = pick[:i] + pick[i+j:]
			}
		}
		pick = strings.TrimPrefix(pick, "github.com/")
		keys = append(keys, pick)
	}
	sort.Strings(keys)
	if !inLib {
		return "harness-race/" + strings.Join(keys, "~")
	}
	return "race/" + strings.Join(keys, "~")
}

func firstRaceReport(log string) string {
	i := strings.Index(log, "WARNING: DATA RACE")
	if i < 0 {
		return ""
	}
	rest := log[i:]
	if j := strings.Index(rest[10:], "=================="); j >= 0 {
		rest = rest[:10+j]
	}
	if len(rest) > 6000 {
		rest = rest[:6000]
	}
	return rest
}

func tapeLen(t map[string][]uint64) int {
	n := 0
	for _, s := range t {
		n += len(s)
	}
	return n
}

func tapeSum(t map[string][]uint64) uint64 {
	var n uint64
	for _, s := range t {
		for _, v := range s {
			n += v
		}
	}
	return n
}

func cloneTape(t map[string][]uint64) map[string][]uint64 {
	out := map[string][]uint64{}
	for k, v := range t {
		out[k] = append([]uint64(nil), v...)
	}
	return out
}

// trimZeros drops trailing zeros: an exhausted tape reads as zeros anyway.
func trimZeros(t map[string][]uint64) {
	for k, v := range t {
		n := len(v)
		for n > 0 && v[n-1] == 0 {
			n--
		}
		t[k] = v[:n]
	}
}

// tryReplay runs one candidate in a fresh process; returns the matching
// violation (same class) if it reproduces.
func (c *checker) tryReplay(v Violation, class string) (*Violation, string, bool) {
	// A race *report* (unlike the execution, which is identical every time)
	// also depends on sync.Pool's deliberate random dropping of objects in
	// race mode, which decides whether pool hand-overs order two tasks; that
	// randomness is inside the Go runtime and outside every seam. Retrying in
	// fresh processes makes the detector's verdict for one tape dependable.
	tries := 1
	if strings.HasPrefix(class, "race/") {
		tries = 6
	}
	for i := 0; i < tries; i++ {
		if got, lg, ok := c.tryReplayOnce(v, class, c.warm); ok {
			return got, lg, true
		}
	}
	return nil, "", false
}

func (c *checker) tryReplayOnce(v Violation, class string, warm int) (*Violation, string, bool) {
	f, err := os.CreateTemp(c.scratch, "cand-*.json")
	if err != nil {
		return nil, "", false
	}
	name := f.Name()
	b, _ := json.Marshal(v)
	f.Write(b)
	f.Close()
	defer os.Remove(name)
	jr := c.runWorker(1, 120*time.Second, "-replay", name, "-samples", "1", "-warm", fmt.Sprint(warm), "-chunk", fmt.Sprint(c.chunkFrom))
	if jr.err != nil || jr.res == nil {
		return nil, "", false
	}
	for _, got := range jr.res.Violations {
		if got.Run != v.Run {
			continue
		}
		cls := got.Class
		if cls == "race" {
			for _, rc := range raceClasses(jr.raceLog) {
				if rc == class {
					cls = rc
				}
			}
		}
		if cls == class {
			got.Class = cls
			return &got, jr.raceLog, true
		}
	}
	return nil, "", false
}

func streamOrder(t map[string][]uint64) []string {
	pref := []string{"sched", "faults", "plan", "workload"}
	var out []string
	seen := map[string]bool{}
	for _, p := range pref {
		if _, ok := t[p]; ok {
			out = append(out, p)
			seen[p] = true
		}
	}
	var rest []string
	for k := range t {
		if !seen[k] {
			rest = append(rest, k)
		}
	}
	sort.Strings(rest)
	return append(out, rest...)
}

// candidates proposes simpler tapes, most aggressive first.
func candidates(t map[string][]uint64) []map[string][]uint64 {
	var out []map[string][]uint64
	add := func(m map[string][]uint64) { trimZeros(m); out = append(out, m) }
	for _, name := range streamOrder(t) {
		s := t[name]
		if len(s) == 0 {
			continue
		}
		// whole stream to zero
		m := cloneTape(t)
		m[name] = nil
		add(m)
		// truncate tails
		for cut := len(s) / 2; cut >= 1; cut /= 2 {
			m := cloneTape(t)
			m[name] = m[name][:len(s)-cut]
			add(m)
		}
		// delete chunks
		for _, sz := range []int{16, 8, 4, 2, 1} {
			if sz > len(s) {
				continue
			}
			stepBy := sz
			if len(s)/sz > 24 {
				stepBy = len(s) / 24
			}
			for at := 0; at+sz <= len(s); at += stepBy {
				m := cloneTape(t)
				m[name] = append(append([]uint64(nil), s[:at]...), s[at+sz:]...)
				add(m)
			}
		}
		// zero / halve single entries
		stepBy := 1
		if len(s) > 48 {
			stepBy = len(s) / 48
		}
		for at := 0; at < len(s); at += stepBy {
			if s[at] == 0 {
				continue
			}
			m := cloneTape(t)
			m[name][at] = 0
			add(m)
			if s[at] > 1 {
				m := cloneTape(t)
				m[name][at] = s[at] / 2
				add(m)
				m = cloneTape(t)
				m[name][at] = s[at] - 1
				add(m)
			}
		}
	}
	return out
}

func simpler(a, b map[string][]uint64) bool {
	if tapeLen(a) != tapeLen(b) {
		return tapeLen(a) < tapeLen(b)
	}
	return tapeSum(a) < tapeSum(b)
}

// shrinkAndWrite minimises the tape of a violation (each candidate in a fresh
// worker process, kept only if the same class recurs), verifies that the
// result replays, and writes the replay file.
func (c *checker) shrinkAndWrite(v Violation, class string, raceLog string, chunkFrom int) string {
	rf := ReplayFile{Property: c.cfg.ID, Scenario: c.cfg.Scenario, Tier: c.tier, Opt: c.cfg.Opt, Race: c.cfg.Race, BatchSeed: c.seed, Class: class}
	rf.Shrink.FromLen = tapeLen(v.Tape)
	best := v
	best.Class = class
	bestLog := raceLog
	deadline := time.Now().Add(45 * time.Second)
	budget := 400
	tried := 0
	// the unshrunk tape must itself replay in a fresh process: alone, or - when
	// the run was not the first of its worker process and needs the package
	// state earlier runs left behind - preceded by 1 run or by its chunk prefix
	c.warm = 0
	got, lg, ok := c.tryReplay(best, class)
	for _, w := range []int{1, v.Run - chunkFrom} {
		if ok || w <= 0 || w == c.warm {
			continue
		}
		c.warm = w
		got, lg, ok = c.tryReplay(best, class)
	}
	rf.Warm = c.warm
	rf.ChunkFrom = chunkFrom
	if ok {
		best = *got
		bestLog = lg
		progress := true
		for progress && tried < budget && time.Now().Before(deadline) {
			progress = false
			cands := candidates(best.Tape)
			for i := 0; i < len(cands) && !progress && tried < budget && time.Now().Before(deadline); i += c.par {
				j := i + c.par
				if j > len(cands) {
					j = len(cands)
				}
				type r struct {
					v   *Violation
					log string
					ok  bool
				}
				rs := make([]r, j-i)
				var wg sync.WaitGroup
				for k := i; k < j; k++ {
					if !simpler(cands[k], best.Tape) {
						continue
					}
					wg.Add(1)
					go func(k int) {
						defer wg.Done()
						cv := best
						cv.Tape = cands[k]
						got, lg, ok := c.tryReplay(cv, class)
						rs[k-i] = r{got, lg, ok}
					}(k)
				}
				wg.Wait()
				tried += j - i
				for k := range rs {
					if rs[k].ok && simpler(rs[k].v.Tape, best.Tape) {
						best = *rs[k].v
						trimZeros(best.Tape)
						bestLog = rs[k].log
						progress = true
						break
					}
				}
			}
		}
		rf.Note = "minimised; replays exactly in a fresh process (same class, event hash recorded)"
	} else {
		rf.Note = "NOT minimised: the violating run did not reproduce from its tape in a fresh process (state from earlier runs of the same worker process is needed); replay the whole chunk with the batch seed"
	}
	rf.Shrink.Candidates = tried
	rf.Shrink.ToLen = tapeLen(best.Tape)
	rf.Violation = best
	rf.RaceReport = firstRaceReport(bestLog)
	name := fmt.Sprintf("%s-%d-%s.json", c.cfg.ID, v.Seed, sanitize(class))
	path := filepath.Join(replayDir(), name)
	writeJSON(path, rf)
	return path
}

func cmdReplay(path string) int {
	b, err := os.ReadFile(path)
	if err != nil {
		fmt.Fprintln(os.Stderr, err)
		return 2
	}
	var rf ReplayFile
	if err := json.Unmarshal(b, &rf); err != nil {
		fmt.Fprintln(os.Stderr, err)
		return 2
	}
	cfg, ok := props[rf.Property]
	if !ok {
		fmt.Fprintln(os.Stderr, "unknown property in replay file")
		return 2
	}
	scratch, err := os.MkdirTemp("", "verifsim-replay-")
	if err != nil {
		fmt.Fprintln(os.Stderr, err)
		return 2
	}
	cleanupOnSignal(&scratch)
	defer os.RemoveAll(scratch)
	bd := &build{scratch: scratch, race: cfg.Race, skipTests: true}
	if err := bd.run(); err != nil {
		fmt.Fprintln(os.Stderr, "MACHINERY: build failed:", err)
		return 2
	}
	c := &checker{cfg: cfg, tier: rf.Tier, seed: rf.BatchSeed, b: bd, scratch: scratch, par: 1, thin: 1, warm: rf.Warm, chunkFrom: rf.ChunkFrom}
	if rf.Class == "depends-on-process-history" {
		ja := c.runWorker(1, 300*time.Second, "-from", fmt.Sprint(rf.CrossChunkA), "-to", fmt.Sprint(rf.CrossChunkA+1), "-samples", "0")
		jb := c.runWorker(1, 300*time.Second, "-from", fmt.Sprint(rf.CrossChunkB), "-to", fmt.Sprint(rf.CrossChunkB+1), "-samples", "0")
		if ja.err != nil || jb.err != nil {
			fmt.Fprintln(os.Stderr, "MACHINERY:", ja.err, jb.err)
			return 2
		}
		i := rf.CrossIndex
		if i < len(ja.res.PerProcess) && i < len(jb.res.PerProcess) && ja.res.PerProcess[i] != jb.res.PerProcess[i] {
			fmt.Printf("replay of %s: %s\n  process of chunk %d: %s\n  process of chunk %d: %s\n", path, rf.CrossWhat, rf.CrossChunkA, ja.res.PerProcess[i], rf.CrossChunkB, jb.res.PerProcess[i])
			fmt.Printf("VIOLATION property=%s replay=%s\n", rf.Property, path)
			return 1
		}
		fmt.Printf("replay of %s: the two processes agree on the current tree\n", path)
		return 0
	}
	got, lg, ok := c.tryReplay(rf.Violation, rf.Class)
	if !ok {
		fmt.Printf("replay of %s: violation class %s did NOT recur on the current tree\n", path, rf.Class)
		return 0
	}
	same := got.Hash == rf.Violation.Hash
	fmt.Printf("replay of %s: class %s recurred; event hash %s (recorded %s, identical=%v)\n%s\n", path, rf.Class, got.Hash, rf.Violation.Hash, same, got.Detail)
	if lg != "" {
		fmt.Println(firstRaceReport(lg))
	}
	fmt.Printf("VIOLATION property=%s replay=%s\n", rf.Property, path)
	return 1
}
