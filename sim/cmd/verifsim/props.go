package main

// Per-property configuration: which scenario decides it, how it is built and
// how many runs each tier explores. Bounds of the generated scenarios live in
// the worker (they depend on the tier name only).

type propCfg struct {
	ID          string
	Scenario    string
	Race        bool
	Opt         string
	QuickRuns   int
	ThorRuns    int
	QuickChunk  int
	ThorChunk   int
	ChunkTimeoS int // watchdog per chunk
	Rule        string
	Assumptions []string
	RealStub    map[string]string
	// probes that must be non-zero for a run of that tier to count as a pass
	RequiredProbes []string
	FaultKinds     []string
	Synctest       bool // also run the go1.26.8 testing/synctest cross-check engine
}

var realStub = map[string]string{
	"real":       "the whole formula package (statement-level yield calls, time.Now, map iteration and time.LoadLocation routed through the seam package by a build-time rewrite of a scratch copy), ericlagergren/decimal, Go reflect/time/regexp, time.LoadLocation and the tzdata parser, the Go runtime scheduler and (C09) the race detector",
	"simulated":  "host functions found in the data map, the wall clock, the process time zone, the zone database directory, the choice of which goroutine runs at every statement, map iteration order, garbage-collection (sync.Pool flush) instants, the calling goroutines",
	"not_present": "network, disk writes, timers, retries, cancellation: the library has none, so none is simulated",
}

var props = map[string]*propCfg{
	"C09": {
		ID: "C09", Scenario: "shared", Race: true,
		QuickRuns: 36000, ThorRuns: 160000, QuickChunk: 250, ThorChunk: 1000, ChunkTimeoS: 1800,
		Rule: "one evaluation = one simulated run: a seed-derived pool of formulas parsed once, 2-8 task goroutines each with its own runner, data map and op script (EVAL/FIELDS/PARSE/FORMAT/POOL_FLUSH) executed under the token scheduler with a seed-chosen strategy, then the same scripts sequentially on re-parsed trees. A run is non-trivial when at least one context switch happened inside a library call; distinct = distinct (sequential outcome hash, schedule trace hash) pairs.",
		Assumptions: []string{
			"yield points are statement boundaries of package formula only; code inside decimal and the standard library runs atomically from the scheduler's point of view (the race detector still sees its memory accesses)",
			"the race detector keeps a bounded access history per location",
			"tasks never share a runner, a data map or a source being formatted, exactly as the statement allows",
			"a clean batch is evidence, not proof",
		},
		RequiredProbes: []string{"tasks_interleaved_inside_an_op"},
		FaultKinds:     []string{"preempt", "pool_flush", "map_permute"},
	},
	"C20": {
		ID: "C20", Scenario: "sessions", Race: false,
		QuickRuns: 160000, ThorRuns: 3000000, QuickChunk: 500, ThorChunk: 2000, ChunkTimeoS: 1800,
		Rule: "one evaluation = one simulated run: 1-6 runners (on 1-3 task goroutines; with more than one task the token scheduler interleaves them at statement level) each executing a seed-derived history of SETTHIS (fresh map, empty map, nil, or a map object handed over before) / SETVAL / CALLER-WRITES (the caller writes into its own map) / EVAL / STORE / FETCH (over a key set of 8, in a quarter of the runs 12-68, keys) / PROBE operations; parsed trees are kept and re-evaluated; formulas come from the model grammar (literals - among them numbers that differ only in trailing zeros -, names, $locals, assignment, comma, arrays, parentheses, conditionals, small-integer + - * and unary minus, same-kind ===, calls to recording / put / get / failing host stubs) and are generated against the model's current state; every result, every get, the host-call order and the caller's data are compared with the two-map reference model after every op; single host faults are enumerated at every call position on clones of the current state. Non-trivial: at least one evaluation and (several evaluations, several runners, or an aborted evaluation); distinct = distinct hash of the complete op histories.",
		Assumptions: []string{
			"the reference model is written from the statement; where the statement is silent (does an evaluation that returned an error keep the locals it had assigned?) each such local may hold its old or its new value and the model resynchronises by reading it",
			"formulas stay inside the fragment whose meaning the statements fix; null is not passed to host stubs while the C11 null-argument finding is open",
			"a clean batch is evidence, not proof",
		},
		RequiredProbes: []string{"evaluations", "aborted_evaluation_with_pending_locals", "set_entry_on_runner_without_map", "shadow_fault_evaluations"},
		FaultKinds:     []string{"host_error", "preempt", "aux_reentry (put/get stubs)"},
	},
	"C07": {
		ID: "C07", Scenario: "sessions", Race: false,
		QuickRuns: 160000, ThorRuns: 3000000, QuickChunk: 500, ThorChunk: 2000, ChunkTimeoS: 1800,
		Rule: "one evaluation = one simulated run, of two kinds chosen by the tape: (a) a sessions history as for C20 (binding, sequencing, persistence across evaluations, forbidden assignment targets, host-visible evaluation order, all against the store-passing reference evaluator, with enumerated host faults); (b) a frame run: 1-10 formulas of the broad grammar (all operators and builtins, long chains and deep nesting, non-ASCII identifiers) over a data map holding decimals, nested maps, slices, structs and times, each evaluated on fresh state without fault, with a fault at every host-call position, and on a history runner, with a deep snapshot of all non-$ caller data compared before and after. Distinct = distinct hash of histories / outcomes.",
		Assumptions: []string{
			"side-effecting sub-expressions are generated only where the statement fixes the order (comma, array elements, call arguments, condition before branch, assignment right-hand side)",
			"after an evaluation that returned an error each local it had assigned may hold its old or its new value",
			"a clean batch is evidence, not proof",
		},
		RequiredProbes: []string{"evaluations", "aborted_evaluation_with_pending_locals", "frame_evaluations", "frame_checked_after_aborted_evaluation", "evaluation_assigns_locals"},
		FaultKinds:     []string{"host_error", "preempt"},
	},
	"C08": {
		ID: "C08", Scenario: "purity", Race: false,
		QuickRuns: 60000, ThorRuns: 400000, QuickChunk: 400, ThorChunk: 1000, ChunkTimeoS: 1800,
		Rule: "one evaluation = one simulated run: a history of 5-200 operations (REPEAT_EVAL of a corpus entry with a fresh runner and fresh equal data, REPARSE, FIELDS, unrelated NOISE formulas, POOL_FLUSH, CLOCK_JUMP; the corpus is 64/512 generated formulas plus a fixed collection of ~45 lexically or syntactically broken texts) on one task or on 2-4 tasks interleaved at statement level, under a fresh map-iteration order for every repetition and a seed-chosen process zone. Every repetition is compared with the baseline the worker process computed in pristine state at start (and baselines are compared across the ~60 worker processes); trees are deep-dumped (all fields, exported or not) after every evaluation and analysis. Non-trivial: at least two repeated evaluations in the history; distinct = distinct hash of the op scripts.",
		Assumptions: []string{
			"`now` and `toDay` are excluded as the statement says; formulas using `date` are compared only under the baseline's process zone",
			"field lists are compared as sets",
			"a clean batch is evidence, not proof",
		},
		RequiredProbes: []string{"repeated_evaluations"},
		FaultKinds:     []string{"map_permute", "pool_flush", "clock_jump", "zone_switch", "preempt"},
	},
	"C11": {
		ID: "C11", Scenario: "bridge", Race: false,
		QuickRuns: 300000, ThorRuns: 6000000, QuickChunk: 5000, ThorChunk: 10000, ChunkTimeoS: 1800,
		Rule: "one evaluation = one simulated run: 1-6 host functions with seed-derived signatures (parameter kinds string, bool, int, int8-64, float32/64, interface{}, *decimal.Big, time.Time, slices and string-keyed maps of these, variadic tails, optional leading context; result kinds int, int32, int64, float32, float64, string, bool, interface{}, *decimal.Big) synthesised with reflect.MakeFunc, and one formula `[call, call, ...]` whose calls have argument lists of length 0..n+2 over all value kinds, with and without spread, nested in arguments, arrays, conditional branches and under the typeof operator, mixed with calls of the library's own builtins (abs, max, min, len, upper, lower, left, right, contains, find, replace, join, includes, finite, year, month, day) and, in a quarter of the runs, a host function that re-enters the runner with a derived context; in a sixth of the runs 2-3 such worlds run on tasks interleaved at statement level; evaluated fault-free and then with a returned error at every host-call position (enumerated). The recorded invocations (order, converted arguments, context identity) and the outcome are compared with a three-valued declarative model (must call / must fail without calling / unspecified). Non-trivial: at least one evaluated call or a predicted failure; distinct = distinct hash of formula text and recorded invocation logs.",
		Assumptions: []string{
			"cells the statement does not fix (null to non-interface parameters, text of arrays/times/maps as strings, numeric-looking strings to numbers, out-of-range integers, values that came through a float32) are UNSPECIFIED: only the specified prefix of the invocation log is checked for that evaluation",
			"conversion to string-keyed map parameters is read as element-wise, like slices",
			"a clean batch is evidence, not proof",
		},
		RequiredProbes: []string{"bridge_calls_generated", "arity:fixed:fits", "arity:fixed:error", "arity:variadic:fits", "arity:variadic+spread:fits", "arity:fixed+spread:error", "cell:interface{} <- null", "cell:int <- number", "cell:string <- number", "cell:float64 <- number", "cell:time.Time <- time", "cell:bool <- number"},
		FaultKinds:     []string{"host_error"},
	},
	"C19": {
		ID: "C19", Scenario: "clock", Race: false, Synctest: true,
		QuickRuns: 150000, ThorRuns: 2000000, QuickChunk: 500, ThorChunk: 2000, ChunkTimeoS: 1800,
		Rule: "one evaluation = one simulated run: a seed-chosen process zone, a simulated wall clock and 5-200 operations on one runner: now()/toDay() with the clock placed anywhere in years 1-9999 or just before local midnight and ticking (0 .. 36 h, sometimes backwards) after every read inside the call; date(y,m,d) with months and days from -50 to +60; the eight field extractors, addDate with shifts up to +-400 years / +-5000 months and days, useTimezone against a simulated zone database with intact, missing, empty, torn and garbage files, timeFormat with numeric layouts, and date->extractor chains through locals; in a fifth of the runs 1-2 further callers with their own runners use the date builtins interleaved at statement level; parsed trees are kept and re-evaluated. A second engine runs the uninstrumented package inside testing/synctest bubbles (go1.26.8) and checks now()/toDay(), the eight field extractors and one far date(y,m,d) per step against the bubble's fake clock and the calendar oracle; that engine is built for linux/amd64 and for linux/386 (32-bit int). Oracles: wall-clock bracket of the call; independent days-from-civil arithmetic; the real time.LoadLocation under the same directory. Non-trivial: at least two operations; distinct = distinct hash of the operation list.",
		Assumptions: []string{
			"the UTC offset in force at an instant is taken from Go's time package (real tz parser, real zone files); everything else in the oracle is independent integer arithmetic",
			"where a local wall time does not exist or is ambiguous (zone transition) either adjacent offset is accepted, as Go documents for time.Date",
			"addDate results outside years 1-9999 and timeFormat of zones with sub-minute offsets are not judged",
			"a clean batch is evidence, not proof",
		},
		RequiredProbes: []string{"clock_ops", "midnight_crossed_inside_a_clock_call", "date_with_carry", "usetz_good_zone", "extract_outside_int64_nanosecond_range"},
		FaultKinds:     []string{"clock_tick", "clock_jump_fwd", "clock_jump_back", "clock_boundary", "zone_switch", "zone_missing", "zone_empty", "zone_torn", "zone_malformed"},
	},
}
