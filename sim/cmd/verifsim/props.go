package main

// Per-property configuration: which scenario decides it, how it is built and
// how many runs each tier explores. Bounds of the generated scenarios live in
// the worker (they depend on the tier name only).

type propCfg struct {
	ID          string
	Scenario    string
	Race        bool
	Opt         string
	QuickRuns   int
	ThorRuns    int
	QuickChunk  int
	ThorChunk   int
	ChunkTimeoS int // watchdog per chunk
	Rule        string
	Assumptions []string
	RealStub    map[string]string
	// probes that must be non-zero for a run of that tier to count as a pass
	RequiredProbes []string
	FaultKinds     []string
}

var realStub = map[string]string{
	"real":       "the whole formula package (statement-level yield calls, time.Now, map iteration and time.LoadLocation routed through the seam package by a build-time rewrite of a scratch copy), ericlagergren/decimal, Go reflect/time/regexp, time.LoadLocation and the tzdata parser, the Go runtime scheduler and (C09) the race detector",
	"simulated":  "host functions found in the data map, the wall clock, the process time zone, the zone database directory, the choice of which goroutine runs at every statement, map iteration order, garbage-collection (sync.Pool flush) instants, the calling goroutines",
	"not_present": "network, disk writes, timers, retries, cancellation: the library has none, so none is simulated",
}

var props = map[string]*propCfg{
	"C09": {
		ID: "C09", Scenario: "shared", Race: true,
		QuickRuns: 16000, ThorRuns: 1200000, QuickChunk: 250, ThorChunk: 1000, ChunkTimeoS: 300,
		Rule: "one evaluation = one simulated run: a seed-derived pool of formulas parsed once, 2-8 task goroutines each with its own runner, data map and op script (EVAL/FIELDS/PARSE/FORMAT/POOL_FLUSH) executed under the token scheduler with a seed-chosen strategy, then the same scripts sequentially on re-parsed trees. A run is non-trivial when at least one context switch happened inside a library call; distinct = distinct (sequential outcome hash, schedule trace hash) pairs.",
		Assumptions: []string{
			"yield points are statement boundaries of package formula only; code inside decimal and the standard library runs atomically from the scheduler's point of view (the race detector still sees its memory accesses)",
			"the race detector keeps a bounded access history per location",
			"tasks never share a runner, a data map or a source being formatted, exactly as the statement allows",
			"a clean batch is evidence, not proof",
		},
		RequiredProbes: []string{"tasks_interleaved_inside_an_op"},
		FaultKinds:     []string{"preempt", "pool_flush", "map_permute"},
	},
}
