package main

import (
	"encoding/json"
	"os"
	"path/filepath"
	"strings"
)

// known_findings.json: genuine defects of the code under test that were
// recorded rather than repaired ("known": reported as KNOWN-FINDING, exit 0)
// and repaired ones ("fixed": suppress nothing). Never written at run time.

type knownFinding struct {
	Property string `json:"property"`
	Status   string `json:"status"` // known | fixed
	Class    string `json:"class"`  // exact violation class, or a prefix ending in '*'
	What     string `json:"what"`
	Commit   string `json:"commit,omitempty"`
	Line     string `json:"line,omitempty"` // the line in the brief's format, for readers
}

type knownFindings struct {
	Findings []knownFinding `json:"findings"`
}

func loadKnownFindings() *knownFindings {
	kf := &knownFindings{}
	b, err := os.ReadFile(filepath.Join(verifDir, "known_findings.json"))
	if err != nil {
		return kf
	}
	json.Unmarshal(b, kf)
	return kf
}

func (k *knownFinding) matches(class string) bool {
	if strings.HasSuffix(k.Class, "*") {
		return strings.HasPrefix(class, strings.TrimSuffix(k.Class, "*"))
	}
	return k.Class == class
}

func (k *knownFindings) match(prop, class string) *knownFinding {
	for i := range k.Findings {
		f := &k.Findings[i]
		if f.Property == prop && f.Status == "known" && f.matches(class) {
			return f
		}
	}
	return nil
}

func (k *knownFindings) forProp(prop string) []*knownFinding {
	var out []*knownFinding
	for i := range k.Findings {
		if k.Findings[i].Property == prop {
			out = append(out, &k.Findings[i])
		}
	}
	return out
}
