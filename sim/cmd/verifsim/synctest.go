package main

import (
	"encoding/json"
	"fmt"
	"os"
	"os/exec"
	"path/filepath"
	"strings"
	"sync"
)

// The C19 cross-check engine: the uninstrumented package inside
// testing/synctest bubbles, built with go1.26.8.

type crossSummary struct {
	From       int64          `json:"from"`
	To         int64          `json:"to"`
	Reads      int            `json:"clock_reads_checked"`
	Crossings  int            `json:"midnight_crossings_by_sleep"`
	Zones      map[string]int `json:"zones"`
	FarDates   int            `json:"far_dates_checked"`
	ClockMin   string         `json:"clock_min"`
	ClockMax   string         `json:"clock_max"`
	Violations []struct {
		Bubble int64  `json:"bubble"`
		Class  string `json:"class"`
		Detail string `json:"detail"`
	} `json:"violations"`
}

type crossResult struct {
	Bubbles    int64
	Reads      int
	Crossings  int
	Zones      map[string]int
	ClockMin   string
	ClockMax   string
	Violations []string // "class|bubble|detail"
	GoVersion  string
	FarDates   int
	Bubbles386 int64 // bubbles executed by the GOARCH=386 build (bubble numbers Bubbles .. Bubbles+Bubbles386-1)
	Reads386   int
}

func runSynctest(b *build, seed uint64, bubbles int64, par int) (*crossResult, error) {
	goBin, err := exec.LookPath("go1.26.8")
	if err != nil {
		return nil, fmt.Errorf("go1.26.8 (needed for testing/synctest) not found on PATH")
	}
	plain := filepath.Join(b.scratch, "formula_plain")
	dir := filepath.Join(b.scratch, "synctest")
	os.MkdirAll(plain, 0o755)
	os.MkdirAll(dir, 0o755)
	ents, err := os.ReadDir(repoDir)
	if err != nil {
		return nil, err
	}
	for _, e := range ents {
		n := e.Name()
		if e.IsDir() || strings.HasSuffix(n, "_test.go") {
			continue
		}
		if strings.HasSuffix(n, ".go") || n == "go.mod" || n == "go.sum" {
			if err := copyFile(filepath.Join(repoDir, n), filepath.Join(plain, n)); err != nil {
				return nil, err
			}
		}
	}
	if err := copyFile(filepath.Join(verifDir, "synctest", "cross_test.go"), filepath.Join(dir, "cross_test.go")); err != nil {
		return nil, err
	}
	civ, err := os.ReadFile(filepath.Join(verifDir, "worker", "civil.go"))
	if err != nil {
		return nil, err
	}
	os.WriteFile(filepath.Join(dir, "civil.go"), []byte(strings.Replace(string(civ), "package main", "package crosscheck", 1)), 0o644)
	modBytes, _ := os.ReadFile(filepath.Join(plain, "go.mod"))
	gomod := "module crosscheck\n\ngo 1.25\n\nrequire " + b.modPath + " v0.0.0\n\nreplace " + b.modPath + " => ../formula_plain\n\n"
	inBlock := false
	for _, l := range strings.Split(string(modBytes), "\n") {
		t := strings.TrimSpace(l)
		switch {
		case strings.HasPrefix(t, "require ("):
			inBlock = true
		case inBlock && t == ")":
			inBlock = false
		case inBlock && t != "":
			gomod += "require " + t + "\n"
		case strings.HasPrefix(t, "require "):
			gomod += t + "\n"
		}
	}
	os.WriteFile(filepath.Join(dir, "go.mod"), []byte(gomod), 0o644)
	copyFile(filepath.Join(plain, "go.sum"), filepath.Join(dir, "go.sum"))
	env := goEnv()
	if out, err := runCmd(dir, env, goBin, "test", "-c", "-o", "cross.test", "."); err != nil {
		return nil, &buildError{"synctest engine build (go1.26.8)", out, err}
	}
	// the same engine for a platform whose int has 32 bits
	if out, err := runCmd(dir, append(append([]string{}, env...), "GOARCH=386", "CGO_ENABLED=0"), goBin, "test", "-c", "-o", "cross386.test", "."); err != nil {
		return nil, &buildError{"synctest engine build (go1.26.8, GOARCH=386)", out, err}
	}
	ver, _ := runCmd(dir, env, goBin, "version")
	res := &crossResult{Bubbles: bubbles, Zones: map[string]int{}, GoVersion: strings.TrimSpace(ver)}
	res.Bubbles386 = bubbles / 2
	per := (bubbles + res.Bubbles386 + int64(par) - 1) / int64(par)
	var wg sync.WaitGroup
	var mu sync.Mutex
	var firstErr error
	type piece struct {
		from, to int64
		bin      string
		is386    bool
	}
	var pieces []piece
	for from := int64(0); from < bubbles; from += per {
		pieces = append(pieces, piece{from, min(from+per, bubbles), "cross.test", false})
	}
	for from := bubbles; from < bubbles+res.Bubbles386; from += per {
		pieces = append(pieces, piece{from, min(from+per, bubbles+res.Bubbles386), "cross386.test", true})
	}
	for _, pc := range pieces {
		from, to, bin, is386 := pc.from, pc.to, pc.bin, pc.is386
		wg.Add(1)
		go func(from, to int64, bin string, is386 bool) {
			defer wg.Done()
			c := exec.Command(filepath.Join(dir, bin), "-test.run", "TestCross", "-test.count", "1", "-test.timeout", "60m")
			c.Dir = dir
			c.Env = append([]string{"PATH=" + os.Getenv("PATH"), "HOME=" + os.Getenv("HOME"), "TZ=UTC", "GOMAXPROCS=2"},
				fmt.Sprintf("VERIF_SEED=%d", seed), fmt.Sprintf("CROSS_FROM=%d", from), fmt.Sprintf("CROSS_TO=%d", to))
			out, err := c.CombinedOutput()
			mu.Lock()
			defer mu.Unlock()
			found := false
			for _, l := range strings.Split(string(out), "\n") {
				if strings.HasPrefix(l, "CROSSSUMMARY ") {
					var s crossSummary
					if json.Unmarshal([]byte(strings.TrimPrefix(l, "CROSSSUMMARY ")), &s) == nil {
						found = true
						res.Reads += s.Reads
						res.FarDates += s.FarDates
						if is386 {
							res.Reads386 += s.Reads
						}
						res.Crossings += s.Crossings
						for k, v := range s.Zones {
							res.Zones[k] += v
						}
						if s.ClockMin != "" && (res.ClockMin == "" || s.ClockMin < res.ClockMin) {
							res.ClockMin = s.ClockMin
						}
						if s.ClockMax > res.ClockMax {
							res.ClockMax = s.ClockMax
						}
						for _, v := range s.Violations {
							d := v.Detail
							if is386 {
								d += " [GOARCH=386 build of the engine]"
							}
							res.Violations = append(res.Violations, fmt.Sprintf("%s|%d|%s", v.Class, v.Bubble, d))
						}
					}
				}
			}
			if !found && firstErr == nil {
				firstErr = fmt.Errorf("synctest engine produced no summary (%v): %s", err, tail(string(out), 1500))
			}
		}(from, to, bin, is386)
	}
	wg.Wait()
	if firstErr != nil {
		return nil, firstErr
	}
	return res, nil
}
