package main

import (
	"context"
	"encoding/json"
	"fmt"
	"io"
	"os"
	"os/exec"
	"path/filepath"
	"runtime"
	"sort"
	"strings"
	"sync"
	"sync/atomic"
	"time"
)

type Violation struct {
	Property string              `json:"property"`
	Oracle   string              `json:"oracle"`
	Class    string              `json:"class"`
	Detail   string              `json:"detail"`
	Run      int                 `json:"run"`
	Seed     uint64              `json:"seed"`
	Tape     map[string][]uint64 `json:"tape"`
	Scenario interface{}         `json:"scenario,omitempty"`
	Hash     string              `json:"event_hash"`
}

type ChunkResult struct {
	Scenario    string            `json:"scenario"`
	Property    string            `json:"property"`
	Tier        string            `json:"tier"`
	From        int               `json:"from"`
	To          int               `json:"to"`
	Runs        int               `json:"runs"`
	Nontrivial  int               `json:"nontrivial"`
	Steps       int64             `json:"steps"`
	TaskSteps   int64             `json:"task_steps"`
	Switches    int64             `json:"switches"`
	Faults      map[string]int64  `json:"faults"`
	Probes      map[string]int64  `json:"probes"`
	Dropped     map[string]int64  `json:"dropped"`
	Sigs        []string          `json:"sigs"`
	SigThin     int               `json:"sig_thin"`
	ChunkHash   string            `json:"chunk_hash"`
	RunHashes   []string          `json:"run_hashes,omitempty"`
	Violations  []Violation       `json:"violations"`
	Samples     []interface{}     `json:"samples"`
	SitesHit    int               `json:"sites_hit"`
	SitesTotal  int               `json:"sites_total"`
	SwitchPairs int               `json:"switch_pairs"`
	SimClockMin string            `json:"sim_clock_min,omitempty"`
	SimClockMax string            `json:"sim_clock_max,omitempty"`
	Strategies  map[string]int64  `json:"strategies"`
	RaceErrors  int               `json:"race_errors"`
	RaceBuild   bool              `json:"race_build"`
	GoMaxProcs  int               `json:"gomaxprocs"`
	WallS       float64           `json:"wall_s"`
	Extra       map[string]string `json:"extra,omitempty"`
	PerProcess  []string          `json:"per_process,omitempty"`
	PerProcessQ []string          `json:"per_process_what,omitempty"`
}

// ReplayFile is what a VIOLATION line points to.
type ReplayFile struct {
	Property  string    `json:"property"`
	Scenario  string    `json:"scenario"`
	Tier      string    `json:"tier"`
	Opt       string    `json:"opt"`
	Race      bool      `json:"race_build"`
	BatchSeed uint64    `json:"batch_seed"`
	Class     string    `json:"class"`
	Violation Violation `json:"violation"`
	Shrink    struct {
		Candidates int `json:"candidates_tried"`
		FromLen    int `json:"tape_entries_before"`
		ToLen      int `json:"tape_entries_after"`
	} `json:"shrink"`
	RaceReport string `json:"race_report,omitempty"`
	Warm       int    `json:"warmup_runs"` // preceding runs of the batch executed first in the replay process
	ChunkFrom  int    `json:"chunk_from"`  // first run index of the worker process the run belonged to
	// cross-process disagreement (C08): two worker processes, same corpus entry, different pristine results
	CrossIndex  int    `json:"cross_index,omitempty"`
	CrossWhat   string `json:"cross_what,omitempty"`
	CrossChunkA int    `json:"cross_chunk_a,omitempty"`
	CrossChunkB int    `json:"cross_chunk_b,omitempty"`
	CrossA      string `json:"cross_value_a,omitempty"`
	CrossB      string `json:"cross_value_b,omitempty"`
	Note       string `json:"note"`
}

type checker struct {
	cfg     *propCfg
	tier    string
	seed    uint64
	b       *build
	scratch string
	par     int
	thin    int
	mu      sync.Mutex
	jobSeq  int
	warm    int
	chunkFrom int
}

var globalJobSeq int64

type jobResult struct {
	res     *ChunkResult
	err     error
	raceLog string
	stderr  string
}

// runWorker executes one worker process. extra args select chunk or replay.
func (c *checker) runWorker(gomaxprocs int, timeout time.Duration, extra ...string) jobResult {
	id := int(atomic.AddInt64(&globalJobSeq, 1))
	out := filepath.Join(c.scratch, fmt.Sprintf("out-%d.json", id))
	racePrefix := filepath.Join(c.scratch, fmt.Sprintf("race-%d", id))
	args := []string{"-scenario", c.cfg.Scenario, "-prop", c.cfg.ID, "-tier", c.tier, "-seed", fmt.Sprint(c.seed),
		"-sites", c.b.sites, "-out", out, "-thin", fmt.Sprint(c.thin)}
	if c.cfg.Opt != "" {
		args = append(args, "-opt", c.cfg.Opt)
	}
	args = append(args, extra...)
	ctx, cancel := context.WithTimeout(context.Background(), timeout)
	defer cancel()
	cmd := exec.CommandContext(ctx, c.b.worker, args...)
	cmd.Dir = c.scratch
	env := []string{"PATH=" + os.Getenv("PATH"), "HOME=" + os.Getenv("HOME"), fmt.Sprintf("GOMAXPROCS=%d", gomaxprocs), "TZ=UTC", "ZONEINFO=" + c.b.zoneinfo}
	if c.cfg.Race {
		env = append(env, "GORACE=halt_on_error=0 history_size=5 log_path="+racePrefix)
	}
	cmd.Env = env
	var stderr strings.Builder
	cmd.Stderr = &stderr
	err := cmd.Run()
	jr := jobResult{stderr: stderr.String()}
	defer os.Remove(out)
	if logs, _ := filepath.Glob(racePrefix + ".*"); len(logs) > 0 {
		for _, l := range logs {
			// only the first reports matter; a racy tree can write hundreds of megabytes
			if f, err := os.Open(l); err == nil {
				buf := make([]byte, 256<<10)
				n, _ := io.ReadFull(f, buf)
				f.Close()
				if len(jr.raceLog) < 512<<10 {
					jr.raceLog += string(buf[:n])
				}
			}
			os.Remove(l)
		}
	}
	if ctx.Err() != nil {
		jr.err = fmt.Errorf("watchdog: worker %v exceeded %v", extra, timeout)
		return jr
	}
	b, rerr := os.ReadFile(out)
	if rerr != nil {
		jr.err = fmt.Errorf("worker %v produced no result (%v): %s", extra, err, tail(stderr.String(), 2000))
		return jr
	}
	var res ChunkResult
	if uerr := json.Unmarshal(b, &res); uerr != nil {
		jr.err = fmt.Errorf("worker %v result unreadable: %v", extra, uerr)
		return jr
	}
	jr.res = &res
	return jr
}

func tail(s string, n int) string {
	if len(s) > n {
		return s[len(s)-n:]
	}
	return s
}

const detPrefix = 120

type crossDiff struct {
	Index          int
	What           string
	ChunkA, ChunkB int
	A, B           string
}

type merged struct {
	Runs, Nontrivial       int
	Steps, TaskSteps       int64
	Switches               int64
	Faults, Probes         map[string]int64
	Dropped, Strategies    map[string]int64
	Sigs                   map[string]struct{}
	Samples                []interface{}
	Violations             []Violation
	RaceLogs               map[int]string // chunk start -> log
	SitesHit, SitesTotal   int
	SwitchPairs            int
	ClockMin, ClockMax     string
	WorkerWall             float64
	ChunkHashes            map[int]string
	PrefixHashes           map[int]string // event hashes of the first runs of each chunk
	PerProcess, PerProcessQ []string
	PerProcessChunk         int
	Cross                   map[int]crossDiff
}

func addMap(dst, src map[string]int64) {
	for k, v := range src {
		dst[k] += v
	}
}

func cmdCheck(prop, tier string, seed uint64, runsOverride int, keep bool) int {
	cfg, ok := props[prop]
	if !ok {
		fmt.Fprintf(os.Stderr, "property %s is not claimed by this framework (see MANIFEST.json not_applicable)\n", prop)
		return 2
	}
	fmt.Printf("verifsim: property=%s tier=%s VERIF_SEED=%d scenario=%s repo=%s\n", prop, tier, seed, cfg.Scenario, repoDir)
	scratch, err := os.MkdirTemp("", "verifsim-"+prop+"-")
	if err != nil {
		fmt.Fprintln(os.Stderr, err)
		return 2
	}
	cleanupOnSignal(&scratch)
	if !keep {
		defer os.RemoveAll(scratch)
	} else {
		fmt.Println("scratch kept:", scratch)
	}
	b := &build{scratch: scratch, race: cfg.Race}
	t0 := time.Now()
	if err := b.run(); err != nil {
		fmt.Fprintln(os.Stderr, "MACHINERY: build failed (exit 2, not a verdict):", err)
		return 2
	}
	fmt.Printf("build: %d yield sites, %d seams, race=%v, %.1fs\n", len(b.instr.Sites), len(b.instr.Seams), cfg.Race, time.Since(t0).Seconds())
	if len(b.instr.Unsupported) > 0 {
		for _, u := range b.instr.Unsupported {
			fmt.Fprintf(os.Stderr, "MACHINERY: construct not under simulator control at %s:%d (%s)\n", u.File, u.Line, u.Kind)
		}
		return 2
	}
	c := &checker{cfg: cfg, tier: tier, seed: seed, b: b, scratch: scratch, par: runtime.NumCPU(), thin: 1}
	if c.par > 16 {
		c.par = 16
	}
	runs, chunk := cfg.QuickRuns, cfg.QuickChunk
	if tier == "thorough" {
		runs, chunk = cfg.ThorRuns, cfg.ThorChunk
		c.thin = 16
	}
	if runsOverride > 0 {
		runs = runsOverride
	}
	if v := os.Getenv("VERIF_RUNS_SCALE"); v != "" {
		var f float64
		fmt.Sscan(v, &f)
		if f > 0 {
			runs = int(float64(runs) * f)
		}
	}
	if runs < chunk {
		chunk = runs
	}
	m := &merged{Faults: map[string]int64{}, Probes: map[string]int64{}, Dropped: map[string]int64{}, Strategies: map[string]int64{},
		Sigs: map[string]struct{}{}, RaceLogs: map[int]string{}, ChunkHashes: map[int]string{}, PrefixHashes: map[int]string{}, Cross: map[int]crossDiff{}}
	type job struct{ from, to int }
	jobs := make(chan job, 1024)
	var wg sync.WaitGroup
	var mu sync.Mutex
	var firstErr error
	timeout := time.Duration(cfg.ChunkTimeoS) * time.Second
	for w := 0; w < c.par; w++ {
		wg.Add(1)
		go func() {
			defer wg.Done()
			for j := range jobs {
				mu.Lock()
				stop := firstErr != nil
				mu.Unlock()
				if stop {
					continue
				}
				jr := c.runWorker(1, timeout, "-from", fmt.Sprint(j.from), "-to", fmt.Sprint(j.to), "-samples", "1", "-hashes")
				mu.Lock()
				if jr.err != nil {
					if firstErr == nil {
						firstErr = jr.err
					}
					mu.Unlock()
					continue
				}
				r := jr.res
				m.Runs += r.Runs
				m.Nontrivial += r.Nontrivial
				m.Steps += r.Steps
				m.TaskSteps += r.TaskSteps
				m.Switches += r.Switches
				addMap(m.Faults, r.Faults)
				addMap(m.Probes, r.Probes)
				addMap(m.Dropped, r.Dropped)
				addMap(m.Strategies, r.Strategies)
				for _, s := range r.Sigs {
					m.Sigs[s] = struct{}{}
				}
				if len(m.Samples) < 3 {
					m.Samples = append(m.Samples, r.Samples...)
				}
				m.Violations = append(m.Violations, r.Violations...)
				if jr.raceLog != "" {
					m.RaceLogs[j.from] = jr.raceLog
				}
				if r.SitesHit > m.SitesHit {
					m.SitesHit = r.SitesHit
				}
				m.SitesTotal = r.SitesTotal
				if r.SwitchPairs > m.SwitchPairs {
					m.SwitchPairs = r.SwitchPairs
				}
				if r.SimClockMin != "" && (m.ClockMin == "" || r.SimClockMin < m.ClockMin) {
					m.ClockMin = r.SimClockMin
				}
				if r.SimClockMax > m.ClockMax {
					m.ClockMax = r.SimClockMax
				}
				m.WorkerWall += r.WallS
				m.ChunkHashes[j.from] = r.ChunkHash
				if len(r.RunHashes) > 0 {
					n := len(r.RunHashes)
					if n > detPrefix {
						n = detPrefix
					}
					m.PrefixHashes[j.from] = strings.Join(r.RunHashes[:n], ",")
				}
				if len(r.PerProcess) > 0 {
					if m.PerProcess == nil {
						m.PerProcess, m.PerProcessQ, m.PerProcessChunk = r.PerProcess, r.PerProcessQ, j.from
					} else {
						for i := range r.PerProcess {
							if i < len(m.PerProcess) && r.PerProcess[i] != m.PerProcess[i] {
								if _, dup := m.Cross[i]; !dup {
									m.Cross[i] = crossDiff{i, m.PerProcessQ[i], m.PerProcessChunk, j.from, m.PerProcess[i], r.PerProcess[i]}
								}
							}
						}
					}
				}
				mu.Unlock()
			}
		}()
	}
	for from := 0; from < runs; from += chunk {
		to := from + chunk
		if to > runs {
			to = runs
		}
		jobs <- job{from, to}
	}
	close(jobs)
	wg.Wait()
	if firstErr != nil {
		fmt.Fprintln(os.Stderr, "MACHINERY:", firstErr)
		return 2
	}
	explWall := time.Since(t0).Seconds()
	fmt.Printf("explored: %d runs (%d non-trivial, %d distinct signatures kept), %d steps, %d context switches, %.1fs\n",
		m.Runs, m.Nontrivial, len(m.Sigs), m.Steps, m.Switches, explWall)

	// ---- secondary engine (C19): the uninstrumented package inside testing/synctest bubbles
	var cross *crossResult
	if cfg.Synctest {
		bubbles := int64(2000)
		if tier == "thorough" {
			bubbles = 100000
		}
		cr, err := runSynctest(b, seed, bubbles, c.par)
		if err != nil {
			fmt.Fprintln(os.Stderr, "MACHINERY:", err)
			return 2
		}
		cross = cr
		fmt.Printf("synctest cross-check (%s): %d bubbles + %d in a GOARCH=386 build, %d evaluations against the bubble clock checked (%d on 386), %d far dates, %d midnight crossings, %d violation(s)\n", cr.GoVersion, cr.Bubbles, cr.Bubbles386, cr.Reads, cr.Reads386, cr.FarDates, cr.Crossings, len(cr.Violations))
		for _, v := range cr.Violations {
			parts := strings.SplitN(v, "|", 3)
			var bub int
			fmt.Sscan(parts[1], &bub)
			m.Violations = append(m.Violations, Violation{Property: cfg.ID, Oracle: "synctest cross-check on the uninstrumented package", Class: parts[0], Detail: parts[2] + " (bubble " + parts[1] + "; replay: CROSS_FROM=" + parts[1] + " CROSS_TO=" + fmt.Sprint(bub+1) + ")", Run: -1 - bub})
		}
		if cr.Bubbles386 > 0 && cr.Reads386 == 0 {
			fmt.Fprintln(os.Stderr, "MACHINERY: the GOARCH=386 build of the synctest engine checked nothing")
			return 2
		}
		if cr.Reads == 0 {
			fmt.Fprintln(os.Stderr, "MACHINERY: synctest engine checked nothing")
			return 2
		}
	}

	// ---- determinism guard: re-execute a sample of chunks in a second process at another GOMAXPROCS
	detChunks := 2
	if tier == "thorough" {
		detChunks = 8
	}
	var froms []int
	for f := range m.ChunkHashes {
		froms = append(froms, f)
	}
	sort.Ints(froms)
	detChecked, detMismatch := 0, 0
	violChunks := map[int]bool{}
	for _, v := range m.Violations {
		violChunks[(v.Run/chunk)*chunk] = true
	}
	if len(froms) > 0 {
		step := len(froms) / detChunks
		if step == 0 {
			step = 1
		}
		var dwg sync.WaitGroup
		for i := 0; i < len(froms) && detChecked < detChunks; i += step {
			f := froms[i]
			to := f + detPrefix // the first runs of the chunk are enough: re-execution at GOMAXPROCS 16 is slow (parked tasks spin)
			if to > f+chunk {
				to = f + chunk
			}
			if to > runs {
				to = runs
			}
			detChecked++
			dwg.Add(1)
			go func(f, to, k int) {
				defer dwg.Done()
				gmp := []int{4, 16}[k%2]
				jr := c.runWorker(gmp, 4*timeout, "-from", fmt.Sprint(f), "-to", fmt.Sprint(to), "-samples", "0", "-hashes")
				mu.Lock()
				defer mu.Unlock()
				if jr.err != nil {
					if firstErr == nil {
						firstErr = jr.err
					}
					return
				}
				if got := strings.Join(jr.res.RunHashes, ","); got != m.PrefixHashes[f] {
					detMismatch++
					fmt.Fprintf(os.Stderr, "determinism: runs %d..%d have event hashes %s at GOMAXPROCS=1 but %s at GOMAXPROCS=%d\n", f, to, oneLine(m.PrefixHashes[f], 200), oneLine(got, 200), gmp)
				}
			}(f, to, detChecked)
		}
		dwg.Wait()
	}
	if firstErr != nil {
		fmt.Fprintln(os.Stderr, "MACHINERY:", firstErr)
		return 2
	}

	// ---- violations: classify, shrink, report
	known := loadKnownFindings()
	exit := 0
	type group struct {
		class string
		first Violation
		count int
	}
	groups := map[string]*group{}
	chunkRaceClass := map[int]string{}
	for _, v := range m.Violations {
		cls := v.Class
		if cls == "race" {
			cf := (v.Run / chunk) * chunk
			if _, ok := chunkRaceClass[cf]; !ok {
				chunkRaceClass[cf] = raceClass(m.RaceLogs[cf])
			}
			cls = chunkRaceClass[cf]
			v.Class = cls
		}
		g, ok := groups[cls]
		if !ok {
			groups[cls] = &group{class: cls, first: v, count: 1}
			continue
		}
		g.count++
		if v.Run < g.first.Run {
			g.first = v
		}
	}
	var classes []string
	for k := range groups {
		classes = append(classes, k)
	}
	sort.Strings(classes)
	reported := 0
	knownMatched := []string{}
	var violLines []string
	for _, cls := range classes {
		g := groups[cls]
		if strings.HasPrefix(cls, "harness-race/") {
			fmt.Fprintf(os.Stderr, "MACHINERY: data race wholly inside harness frames (%s); no verdict\n%s\n", cls, firstRaceReport(m.RaceLogs[(g.first.Run/chunk)*chunk]))
			return 2
		}
		if kf := known.match(cfg.ID, cls); kf != nil {
			fmt.Printf("KNOWN-FINDING: property=%s %s (class %s, %d run(s); e.g. %s)\n", cfg.ID, kf.What, cls, g.count, oneLine(g.first.Detail, 300))
			knownMatched = append(knownMatched, cls)
			continue
		}
		if reported >= 3 {
			fmt.Printf("(further violation class not minimised: %s, %d run(s))\n", cls, g.count)
			exit = 1
			continue
		}
		reported++
		c.chunkFrom = (g.first.Run / chunk) * chunk
		rf := c.shrinkAndWrite(g.first, cls, m.RaceLogs[(g.first.Run/chunk)*chunk], (g.first.Run/chunk)*chunk)
		line := fmt.Sprintf("VIOLATION property=%s replay=%s", cfg.ID, rf)
		violLines = append(violLines, line)
		fmt.Printf("violation class %s (%d run(s)): %s\n", cls, g.count, oneLine(g.first.Detail, 600))
		fmt.Println(line)
		exit = 1
	}
	// values that every worker process must agree on (C08: each process evaluates the
	// same corpus once at start, in its own order)
	if len(m.Cross) > 0 {
		var idx []int
		for i := range m.Cross {
			idx = append(idx, i)
		}
		sort.Ints(idx)
		d := m.Cross[idx[0]]
		cls := "depends-on-process-history"
		if kf := known.match(cfg.ID, cls); kf != nil {
			fmt.Printf("KNOWN-FINDING: property=%s %s\n", cfg.ID, kf.What)
		} else {
			rf := ReplayFile{Property: cfg.ID, Scenario: cfg.Scenario, Tier: tier, Opt: cfg.Opt, BatchSeed: seed, Class: cls,
				CrossIndex: d.Index, CrossWhat: d.What, CrossChunkA: d.ChunkA, CrossChunkB: d.ChunkB, CrossA: d.A, CrossB: d.B,
				Note: "two worker processes evaluated the same corpus entry (same text, equal data, fresh runner) in pristine processes but after different other entries, and disagree; replay re-executes both processes' baselines"}
			path := filepath.Join(replayDir(), fmt.Sprintf("%s-%d-cross-process-%d.json", cfg.ID, seed, d.Index))
			writeJSON(path, rf)
			fmt.Printf("violation class %s (%d corpus entries): %s: process of chunk %d: %s ; process of chunk %d: %s\n", cls, len(idx), oneLine(d.What, 300), d.ChunkA, oneLine(d.A, 300), d.ChunkB, oneLine(d.B, 300))
			line := fmt.Sprintf("VIOLATION property=%s replay=%s", cfg.ID, path)
			violLines = append(violLines, line)
			fmt.Println(line)
			exit = 1
		}
	}
	// known findings that were expected but did not fire are only reported, never fatal
	for _, kf := range known.forProp(cfg.ID) {
		if kf.Status == "known" {
			hit := false
			for _, k := range knownMatched {
				if kf.matches(k) {
					hit = true
				}
			}
			if !hit {
				fmt.Printf("note: known finding %q did not fire in this run\n", kf.Class)
			}
		}
	}
	if detMismatch > 0 && exit == 0 {
		fmt.Fprintln(os.Stderr, "MACHINERY: executions are not deterministic (event hashes differ between processes); no verdict")
		return 2
	}
	// ---- reach
	reachFail := []string{}
	for _, p := range cfg.RequiredProbes {
		if m.Probes[p] == 0 {
			reachFail = append(reachFail, p)
		}
	}
	dropTotal := int64(0)
	for k, v := range m.Dropped {
		if k == "zone_missing_in_sandbox" {
			continue
		}
		dropTotal += v
	}
	// ---- evidence
	wall := time.Since(startTime).Seconds()
	ev := map[string]interface{}{
		"property_id": cfg.ID,
		"tier":        tier,
		"seed":        int64(seed),
		"level":       "exploration",
		"wall_s":      wall,
		"violations":  len(violLines),
		"assumptions": cfg.Assumptions,
		"coverage": map[string]interface{}{
			"evaluations":         m.Runs,
			"distinct_nontrivial": len(m.Sigs),
			"rule":                cfg.Rule + fmt.Sprintf(" Signatures are kept only when sig %% %d == 0 (memory bound), so distinct_nontrivial is a lower bound counted by the machinery.", c.thin),
			"samples":             m.Samples,
			"technique":           "deterministic simulation with fault injection: seeded search over schedules and fault sequences; one seed = one repeatable execution",
			"seeds":               map[string]interface{}{"batch_seed": seed, "run_seed": "mix(batch_seed, property, run index)", "first_run": 0, "last_run": runs - 1},
			"runs_per_hour":       int64(float64(m.Runs) / explWall * 3600),
			"nontrivial_runs":     m.Nontrivial,
			"simulated_steps":     m.Steps,
			"steps_inside_tasks":  m.TaskSteps,
			"context_switches":    m.Switches,
			"distinct_switch_site_pairs_max_per_worker": m.SwitchPairs,
			"yield_sites_total":                         m.SitesTotal,
			"yield_sites_hit_max_per_worker":            m.SitesHit,
			"faults_fired":                              m.Faults,
			"fault_kinds_configured":                    cfg.FaultKinds,
			"probes":                                    m.Probes,
			"dropped":                                   m.Dropped,
			"strategies":                                m.Strategies,
			"simulated_clock_span":                      map[string]string{"min": m.ClockMin, "max": m.ClockMax},
			"determinism_guard":                         map[string]interface{}{"chunks_whose_first_runs_were_reexecuted_in_a_second_process": detChecked, "runs_per_chunk": detPrefix, "gomaxprocs": []int{4, 16}, "mismatches": detMismatch},
			"known_findings_matched":                    knownMatched,
			"real_vs_stub":                              realStub,
			"seams":                                     b.instr.Seams,
			"race_build":                                cfg.Race,
			"worker_cpu_seconds":                        m.WorkerWall,
			"reach_failures":                            reachFail,
		},
	}
	if cross != nil {
		ev["coverage"].(map[string]interface{})["synctest_cross_check"] = map[string]interface{}{
			"engine": "uninstrumented package inside testing/synctest bubbles, " + cross.GoVersion, "bubbles": cross.Bubbles, "bubbles_in_GOARCH_386_build": cross.Bubbles386, "clock_reads_checked": cross.Reads, "clock_reads_checked_on_386": cross.Reads386, "far_dates_checked": cross.FarDates,
			"platforms": []string{"linux/amd64 (int = 64 bits)", "linux/386 (int = 32 bits)"},
			"midnight_crossings_by_sleep": cross.Crossings, "zones": cross.Zones, "fake_clock_span": map[string]string{"min": cross.ClockMin, "max": cross.ClockMax}, "violations": len(cross.Violations)}
	}
	if err := writeJSON(filepath.Join(evidenceDir(), cfg.ID+".json"), ev); err != nil {
		fmt.Fprintln(os.Stderr, "MACHINERY: cannot write evidence:", err)
		return 2
	}
	fmt.Printf("faults fired: %v\nprobes: %v\ndropped: %v\nevidence: %s (%.1fs)\n", m.Faults, m.Probes, m.Dropped, filepath.Join(evidenceDir(), cfg.ID+".json"), wall)
	if exit == 0 && len(reachFail) > 0 {
		fmt.Fprintf(os.Stderr, "MACHINERY: required probes never hit: %v - the run explored nothing relevant; no verdict\n", reachFail)
		return 2
	}
	if exit == 0 && dropTotal*20 > int64(m.Runs) {
		fmt.Fprintf(os.Stderr, "MACHINERY: too much dropped work (%v of %d runs); no verdict\n", m.Dropped, m.Runs)
		return 2
	}
	return exit
}

func oneLine(s string, n int) string {
	s = strings.ReplaceAll(s, "\n", " ")
	if len(s) > n {
		s = s[:n] + "..."
	}
	return s
}
