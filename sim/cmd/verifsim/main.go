// Command verifsim is the orchestrator of the deterministic simulator.
//
//	verifsim check <property> [--tier quick|thorough]
//	verifsim replay <replay file>
//	verifsim build --keep <dir>          (development: build the instrumented copy and worker, keep them)
//
// Exit codes: 0 property held on everything explored (KNOWN-FINDING lines
// possible); 1 with "VIOLATION property=<id> replay=<path>"; 2 machinery
// trouble (build, instrumenter, determinism, watchdog, reach) - never a verdict.
package main

import (
	"encoding/json"
	"flag"
	"fmt"
	"os"
	"os/signal"
	"path/filepath"
	"strconv"
	"strings"
	"syscall"
	"time"
)

var (
	verifDir = "/verif"
	repoDir  = "/repo"
)

func main() {
	if d := os.Getenv("VERIF_DIR"); d != "" {
		verifDir = d
	}
	if d := os.Getenv("VERIF_REPO"); d != "" {
		repoDir = d
	}
	if len(os.Args) < 2 {
		usage()
	}
	switch os.Args[1] {
	case "check":
		fs := flag.NewFlagSet("check", flag.ExitOnError)
		tier := fs.String("tier", envOr("VERIF_TIER", "quick"), "quick|thorough")
		runs := fs.Int("runs", 0, "override the number of runs")
		keep := fs.Bool("keep", false, "keep the scratch directory")
		if len(os.Args) < 3 {
			usage()
		}
		prop := os.Args[2]
		fs.Parse(os.Args[3:])
		if *tier != "quick" && *tier != "thorough" {
			fmt.Fprintln(os.Stderr, "tier must be quick or thorough")
			os.Exit(2)
		}
		seed := uint64(1)
		if s := os.Getenv("VERIF_SEED"); s != "" {
			v, err := strconv.ParseUint(s, 10, 64)
			if err != nil {
				if iv, err2 := strconv.ParseInt(s, 10, 64); err2 == nil {
					v = uint64(iv)
				} else {
					fmt.Fprintln(os.Stderr, "VERIF_SEED must be an integer")
					os.Exit(2)
				}
			}
			seed = v
		}
		os.Exit(cmdCheck(prop, *tier, seed, *runs, *keep))
	case "replay":
		if len(os.Args) < 3 {
			usage()
		}
		os.Exit(cmdReplay(os.Args[2]))
	case "determinism":
		fs := flag.NewFlagSet("determinism", flag.ExitOnError)
		seeds := fs.Int("seeds", 40, "number of batch seeds")
		runs := fs.Int("runs", 60, "runs per seed")
		if len(os.Args) < 3 {
			usage()
		}
		fs.Parse(os.Args[3:])
		os.Exit(cmdDeterminism(os.Args[2], *seeds, *runs))
	case "build":
		fs := flag.NewFlagSet("build", flag.ExitOnError)
		keep := fs.String("keep", "", "directory to build into (kept)")
		race := fs.Bool("race", false, "build the worker with -race")
		fs.Parse(os.Args[2:])
		if *keep == "" {
			usage()
		}
		b := &build{scratch: *keep, race: *race, keep: true}
		if err := b.run(); err != nil {
			fmt.Fprintln(os.Stderr, "build failed:", err)
			os.Exit(2)
		}
		fmt.Println("worker:", b.worker)
	default:
		usage()
	}
}

func usage() {
	fmt.Fprintln(os.Stderr, "usage: verifsim check <property> [--tier quick|thorough] | replay <file> | build --keep <dir> [--race]")
	os.Exit(2)
}

func envOr(k, d string) string {
	if v := os.Getenv(k); v != "" {
		return v
	}
	return d
}

// cleanupOnSignal removes the scratch directory when the check is interrupted.
func cleanupOnSignal(dir *string) {
	ch := make(chan os.Signal, 1)
	signal.Notify(ch, syscall.SIGINT, syscall.SIGTERM, syscall.SIGHUP)
	go func() {
		<-ch
		if *dir != "" {
			os.RemoveAll(*dir)
		}
		os.Exit(2)
	}()
}

func writeJSON(path string, v interface{}) error {
	b, err := json.MarshalIndent(v, "", " ")
	if err != nil {
		return err
	}
	if err := os.MkdirAll(filepath.Dir(path), 0o755); err != nil {
		return err
	}
	return os.WriteFile(path, append(b, '\n'), 0o644)
}

func sanitize(s string) string {
	var b strings.Builder
	for _, c := range s {
		switch {
		case c >= 'a' && c <= 'z', c >= 'A' && c <= 'Z', c >= '0' && c <= '9', c == '-', c == '.':
			b.WriteRune(c)
		default:
			b.WriteByte('_')
		}
	}
	out := b.String()
	if len(out) > 60 {
		out = out[:60]
	}
	return out
}

var startTime = time.Now()

// replayDir / evidenceDir: /verif/replays and /verif/evidence, unless redirected
// (the seeded-change experiments run the checks against patched scratch copies
// and must not overwrite the evidence of the real tree).
func replayDir() string {
	if d := os.Getenv("VERIF_REPLAY_DIR"); d != "" {
		return d
	}
	return filepath.Join(verifDir, "replays")
}

func evidenceDir() string {
	if d := os.Getenv("VERIF_EVIDENCE_DIR"); d != "" {
		return d
	}
	return filepath.Join(verifDir, "evidence")
}
