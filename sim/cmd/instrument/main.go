// Command instrument rewrites a scratch copy of the package under test so that
// every source of nondeterminism goes through the simhook seam package.
//
// It works by byte-offset edits that never add or remove a newline, so every
// line number of the instrumented copy equals the line number in /repo.
//
//	instrument -dir <scratch copy of the package>
//
// Output: files rewritten in place, <dir>/sim_sites.json describing yield sites,
// seams and constructs the simulator cannot own.
package main

import (
	"encoding/json"
	"flag"
	"fmt"
	"go/ast"
	"go/token"
	"go/types"
	"os"
	"path/filepath"
	"sort"
	"strings"

	"golang.org/x/tools/go/packages"
)

type edit struct {
	off  int // byte offset in the original file
	end  int // == off for pure insertions
	text string
	seq  int
}

type site struct {
	ID   int    `json:"id"`
	File string `json:"file"`
	Line int    `json:"line"`
	Func string `json:"func"`
	Hot  bool   `json:"hot"`
}

type seam struct {
	Kind string `json:"kind"`
	File string `json:"file"`
	Line int    `json:"line"`
}

type report struct {
	Package     string   `json:"package"`
	Sites       []site   `json:"sites"`
	Seams       []seam   `json:"seams"`
	Unsupported []seam   `json:"unsupported"`
	Globals     []string `json:"globals"`
}

type inst struct {
	pkg   *packages.Package
	fset  *token.FileSet
	rep   report
	edits map[string][]edit // filename -> edits
	seq   int
	hook  string // local import name
	skip  map[ast.Node]bool // channel operations inside a select that has a default clause
}

func main() {
	dir := flag.String("dir", "", "directory of the package copy to instrument")
	flag.Parse()
	if *dir == "" {
		fmt.Fprintln(os.Stderr, "usage: instrument -dir <dir>")
		os.Exit(2)
	}
	abs, err := filepath.Abs(*dir)
	if err != nil {
		die(err)
	}
	cfg := &packages.Config{
		Dir: abs,
		Mode: packages.NeedName | packages.NeedFiles | packages.NeedCompiledGoFiles |
			packages.NeedSyntax | packages.NeedTypes | packages.NeedTypesInfo |
			packages.NeedImports | packages.NeedDeps,
		Tests: false,
		Env:   os.Environ(),
	}
	pkgs, err := packages.Load(cfg, ".")
	if err != nil {
		die(err)
	}
	if len(pkgs) != 1 {
		die(fmt.Errorf("expected one package, got %d", len(pkgs)))
	}
	p := pkgs[0]
	if len(p.Errors) > 0 {
		for _, e := range p.Errors {
			fmt.Fprintln(os.Stderr, "load error:", e)
		}
		os.Exit(3) // the tree under test does not compile
	}
	in := &inst{pkg: p, fset: p.Fset, edits: map[string][]edit{}, hook: "simhook", skip: map[ast.Node]bool{}}
	in.rep.Package = p.PkgPath
	for i, f := range p.Syntax {
		name := p.CompiledGoFiles[i]
		if strings.HasSuffix(name, "_test.go") {
			continue
		}
		in.file(name, f)
	}
	// globals
	sc := p.Types.Scope()
	for _, n := range sc.Names() {
		if v, ok := sc.Lookup(n).(*types.Var); ok {
			in.rep.Globals = append(in.rep.Globals, v.Name()+" "+types.TypeString(v.Type(), types.RelativeTo(p.Types)))
		}
	}
	// apply
	names := make([]string, 0, len(in.edits))
	for n := range in.edits {
		names = append(names, n)
	}
	sort.Strings(names)
	for _, name := range names {
		src, err := os.ReadFile(name)
		if err != nil {
			die(err)
		}
		out := apply(src, in.edits[name])
		if err := os.WriteFile(name, out, 0o644); err != nil {
			die(err)
		}
	}
	b, _ := json.MarshalIndent(in.rep, "", " ")
	if err := os.WriteFile(filepath.Join(abs, "sim_sites.json"), b, 0o644); err != nil {
		die(err)
	}
	fmt.Printf("instrumented %s: %d yield sites, %d seams, %d unsupported constructs\n",
		p.PkgPath, len(in.rep.Sites), len(in.rep.Seams), len(in.rep.Unsupported))
}

func die(err error) {
	fmt.Fprintln(os.Stderr, "instrument:", err)
	os.Exit(2)
}

func apply(src []byte, eds []edit) []byte {
	sort.SliceStable(eds, func(a, b int) bool {
		if eds[a].off != eds[b].off {
			return eds[a].off < eds[b].off
		}
		return eds[a].seq < eds[b].seq
	})
	var out []byte
	pos := 0
	for _, e := range eds {
		if e.off < pos {
			die(fmt.Errorf("overlapping edits at offset %d", e.off))
		}
		out = append(out, src[pos:e.off]...)
		out = append(out, e.text...)
		pos = e.end
	}
	out = append(out, src[pos:]...)
	return out
}

func (in *inst) off(p token.Pos) int { return in.fset.Position(p).Offset }

func (in *inst) add(file string, from, to token.Pos, text string) {
	in.seq++
	in.edits[file] = append(in.edits[file], edit{in.off(from), in.off(to), text, in.seq})
}

func (in *inst) seamAt(kind string, p token.Pos) {
	pos := in.fset.Position(p)
	in.rep.Seams = append(in.rep.Seams, seam{kind, filepath.Base(pos.Filename), pos.Line})
}

func (in *inst) unsupported(kind string, p token.Pos) {
	pos := in.fset.Position(p)
	in.rep.Unsupported = append(in.rep.Unsupported, seam{kind, filepath.Base(pos.Filename), pos.Line})
}

func (in *inst) src(file string, from, to token.Pos) string {
	b, err := os.ReadFile(file)
	if err != nil {
		die(err)
	}
	return string(b[in.off(from):in.off(to)])
}

func (in *inst) file(name string, f *ast.File) {
	before := len(in.edits[name])
	timeUsed := ""
	for _, d := range f.Decls {
		fd, ok := d.(*ast.FuncDecl)
		if !ok || fd.Body == nil {
			// package-level var initialisers may call time.Now etc.
			ast.Inspect(d, func(n ast.Node) bool { in.expr(name, n, &timeUsed); return true })
			continue
		}
		fn := fd.Name.Name
		if fd.Recv != nil && len(fd.Recv.List) > 0 {
			fn = types.ExprString(fd.Recv.List[0].Type) + "." + fn
		}
		in.block(name, fn, fd.Body.List)
		ast.Inspect(fd.Body, func(n ast.Node) bool {
			switch x := n.(type) {
			case *ast.BlockStmt:
				// handled by parents that know whether it is a switch body
			case *ast.FuncLit:
				in.block(name, fn+".func", x.Body.List)
			case *ast.IfStmt:
				in.block(name, fn, x.Body.List)
				if b, ok := x.Else.(*ast.BlockStmt); ok {
					in.block(name, fn, b.List)
				}
			case *ast.ForStmt:
				in.block(name, fn, x.Body.List)
			case *ast.RangeStmt:
				in.block(name, fn, x.Body.List)
				in.rangeStmt(name, x)
			case *ast.CaseClause:
				in.block(name, fn, x.Body)
			case *ast.CommClause:
				in.block(name, fn, x.Body)
			case *ast.LabeledStmt:
				if b, ok := x.Stmt.(*ast.BlockStmt); ok {
					in.block(name, fn, b.List)
				}
			case *ast.GoStmt:
				c := x.Call
				if c.Ellipsis.IsValid() {
					in.unsupported("go statement with a spread argument", x.Pos())
				} else {
					// go F(A, B) -> simhook.GoCall(F, A, B): F, A, B are evaluated now, the call runs as a new task
					in.add(name, x.Pos(), c.Fun.Pos(), in.hook+".GoCall(")
					if len(c.Args) == 0 {
						in.add(name, c.Fun.End(), c.End(), ")")
					} else {
						in.add(name, c.Fun.End(), c.Args[0].Pos(), ", ")
					}
					in.seamAt("go statement", x.Pos())
				}
			case *ast.SelectStmt:
				hasDefault := false
				for _, c := range x.Body.List {
					if cc, ok := c.(*ast.CommClause); ok && cc.Comm == nil {
						hasDefault = true
					}
				}
				if !hasDefault {
					// select { A; B }  ->  simselN: select { A; B; default: simhook.Poll(); goto simselN }
					// (a labelled select and a goto keep the statement terminating when all its cases are,
					// and leave break / continue inside the cases meaning what they meant)
					lbl := fmt.Sprintf("simsel%d", len(in.rep.Seams))
					in.add(name, x.Pos(), x.Pos(), lbl+": ")
					in.add(name, x.Body.Rbrace, x.Body.Rbrace, "default: "+in.hook+".Poll(); goto "+lbl+"; ")
					in.seamAt("select without default (polling)", x.Pos())
				}
				// a select with a default clause never blocks: its channel operations stay as they are
				for _, c := range x.Body.List {
					if cc, ok := c.(*ast.CommClause); ok && cc.Comm != nil {
						ast.Inspect(cc.Comm, func(m ast.Node) bool {
							if m != nil {
								in.skip[m] = true
							}
							return true
						})
					}
				}
				in.seamAt("select-with-default", x.Pos())
			case *ast.SendStmt:
				if !in.skip[x] {
					// ch <- v  ->  simhook.Send(ch, v): cooperative, never blocks the token scheduler
					in.add(name, x.Pos(), x.Chan.Pos(), in.hook+".Send(")
					in.add(name, x.Chan.End(), x.Value.Pos(), ", ")
					in.add(name, x.End(), x.End(), ")")
					in.seamAt("channel send", x.Pos())
				}
			case *ast.AssignStmt:
				if len(x.Lhs) == 2 && len(x.Rhs) == 1 {
					if u, ok := x.Rhs[0].(*ast.UnaryExpr); ok && u.Op == token.ARROW && !in.skip[u] {
						in.add(name, u.Pos(), u.X.Pos(), in.hook+".Recv2(")
						in.add(name, u.End(), u.End(), ")")
						in.skip[u] = true
						in.seamAt("channel receive (v, ok)", x.Pos())
					}
				}
			case *ast.UnaryExpr:
				if x.Op == token.ARROW && !in.skip[x] {
					in.add(name, x.Pos(), x.X.Pos(), in.hook+".Recv(")
					in.add(name, x.End(), x.End(), ")")
					in.seamAt("channel receive", x.Pos())
				}
			}
			in.expr(name, n, &timeUsed)
			return true
		})
	}
	if len(in.edits[name]) == before {
		return
	}
	// import on the package clause line: no line shifts
	in.add(name, f.Name.End(), f.Name.End(), fmt.Sprintf("; import %s %q", in.hook, in.pkg.PkgPath+"/simhook"))
	if timeUsed != "" {
		in.add(name, f.End(), f.End(), "\nvar _ = "+timeUsed+".Now\n")
	}
}

// block inserts a yield before every statement of a statement list. Plain
// nested blocks ({ ... } as a statement) are descended into here; bodies of
// if/for/switch are reached through ast.Inspect in file().
func (in *inst) block(file, fn string, list []ast.Stmt) {
	for _, s := range list {
		if _, ok := s.(*ast.EmptyStmt); ok {
			continue
		}
		pos := in.fset.Position(s.Pos())
		id := len(in.rep.Sites)
		in.rep.Sites = append(in.rep.Sites, site{ID: id, File: filepath.Base(pos.Filename), Line: pos.Line, Func: fn, Hot: in.hot(s)})
		in.add(file, s.Pos(), s.Pos(), fmt.Sprintf("%s.Y(%d);", in.hook, id))
		if b, ok := s.(*ast.BlockStmt); ok {
			in.block(file, fn, b.List)
		}
	}
}

// hot: the statement itself (not nested statement bodies) mentions a
// package-level variable, writes through a selector, or calls into sync.
func (in *inst) hot(s ast.Stmt) bool {
	hot := false
	var visit func(n ast.Node) bool
	visit = func(n ast.Node) bool {
		if hot || n == nil {
			return false
		}
		switch x := n.(type) {
		case *ast.BlockStmt:
			return false
		case *ast.FuncLit:
			return false
		case *ast.Ident:
			if v, ok := in.pkg.TypesInfo.Uses[x].(*types.Var); ok && v.Parent() == in.pkg.Types.Scope() {
				hot = true
			}
		case *ast.AssignStmt:
			for _, l := range x.Lhs {
				switch l.(type) {
				case *ast.SelectorExpr, *ast.IndexExpr, *ast.StarExpr:
					hot = true
				}
			}
		case *ast.IncDecStmt:
			switch x.X.(type) {
			case *ast.SelectorExpr, *ast.IndexExpr, *ast.StarExpr:
				hot = true
			}
		case *ast.SelectorExpr:
			if sel, ok := in.pkg.TypesInfo.Selections[x]; ok {
				if f, ok := sel.Obj().(*types.Func); ok && f.Pkg() != nil && (f.Pkg().Path() == "sync" || f.Pkg().Path() == "sync/atomic") {
					hot = true
				}
			}
			if id, ok := x.X.(*ast.Ident); ok {
				if pn, ok := in.pkg.TypesInfo.Uses[id].(*types.PkgName); ok && strings.HasPrefix(pn.Imported().Path(), "sync") {
					hot = true
				}
			}
		}
		return true
	}
	switch x := s.(type) {
	case *ast.IfStmt:
		ast.Inspect(x.Cond, visit)
		if x.Init != nil {
			ast.Inspect(x.Init, visit)
		}
	case *ast.ForStmt:
		if x.Cond != nil {
			ast.Inspect(x.Cond, visit)
		}
	case *ast.RangeStmt:
		ast.Inspect(x.X, visit)
	case *ast.SwitchStmt:
		if x.Tag != nil {
			ast.Inspect(x.Tag, visit)
		}
	case *ast.TypeSwitchStmt:
		ast.Inspect(x.Assign, visit)
	default:
		ast.Inspect(s, visit)
	}
	return hot
}

func (in *inst) typeOf(e ast.Expr) types.Type {
	if tv, ok := in.pkg.TypesInfo.Types[e]; ok {
		return tv.Type
	}
	return nil
}

func isNamed(t types.Type, pkg, name string) (ptr bool, ok bool) {
	if t == nil {
		return false, false
	}
	if p, isPtr := t.(*types.Pointer); isPtr {
		t = p.Elem()
		ptr = true
	}
	n, isNamed := t.(*types.Named)
	if !isNamed || n.Obj().Pkg() == nil {
		return ptr, false
	}
	return ptr, n.Obj().Pkg().Path() == pkg && n.Obj().Name() == name
}

func simpleExpr(e ast.Expr) bool {
	switch x := e.(type) {
	case *ast.Ident:
		return true
	case *ast.SelectorExpr:
		return simpleExpr(x.X)
	case *ast.ParenExpr:
		return simpleExpr(x.X)
	case *ast.StarExpr:
		return simpleExpr(x.X)
	}
	return false
}

func (in *inst) rangeStmt(file string, r *ast.RangeStmt) {
	t := in.typeOf(r.X)
	if t == nil {
		return
	}
	switch t.Underlying().(type) {
	case *types.Chan:
		in.unsupported("range over channel", r.Pos())
		return
	case *types.Map:
	default:
		return
	}
	if r.Key == nil {
		return // `for range m`: order cannot be observed through the loop variables
	}
	xs := in.src(file, r.X.Pos(), r.X.End())
	isBlank := func(e ast.Expr) bool {
		id, ok := e.(*ast.Ident)
		return e == nil || (ok && id.Name == "_")
	}
	tok := r.Tok.String()
	n := len(in.rep.Seams)
	if isBlank(r.Value) {
		if isBlank(r.Key) {
			return
		}
		ks := in.src(file, r.Key.Pos(), r.Key.End())
		in.add(file, r.Key.Pos(), r.X.End(), fmt.Sprintf("_, %s %s range %s.Keys(%s)", ks, tok, in.hook, xs))
		in.seamAt("map_range", r.Pos())
		return
	}
	if !simpleExpr(r.X) {
		in.unsupported("map range with key and value over a non-trivial expression", r.Pos())
		return
	}
	vs := in.src(file, r.Value.Pos(), r.Value.End())
	kname := fmt.Sprintf("simk%d", n)
	okname := fmt.Sprintf("simok%d", n)
	var header, prefix string
	if r.Tok == token.DEFINE {
		if isBlank(r.Key) {
			header = fmt.Sprintf("_, %s := range %s.Keys(%s)", kname, in.hook, xs)
			prefix = fmt.Sprintf("%s, %s := (%s)[%s]; if !%s { continue };", vs, okname, xs, kname, okname)
		} else {
			ks := in.src(file, r.Key.Pos(), r.Key.End())
			header = fmt.Sprintf("_, %s := range %s.Keys(%s)", ks, in.hook, xs)
			prefix = fmt.Sprintf("%s, %s := (%s)[%s]; if !%s { continue };", vs, okname, xs, ks, okname)
		}
	} else {
		if isBlank(r.Key) {
			header = fmt.Sprintf("_, %s := range %s.Keys(%s)", kname, in.hook, xs)
			prefix = fmt.Sprintf("var %s bool; %s, %s = (%s)[%s]; if !%s { continue };", okname, vs, okname, xs, kname, okname)
		} else {
			ks := in.src(file, r.Key.Pos(), r.Key.End())
			header = fmt.Sprintf("_, %s = range %s.Keys(%s)", ks, in.hook, xs)
			prefix = fmt.Sprintf("var %s bool; %s, %s = (%s)[%s]; if !%s { continue };", okname, vs, okname, xs, ks, okname)
		}
	}
	in.add(file, r.Key.Pos(), r.X.End(), header)
	in.add(file, r.Body.Lbrace+1, r.Body.Lbrace+1, prefix)
	in.seamAt("map_range_kv", r.Pos())
}

// expr handles expression-level seams.
func (in *inst) expr(file string, n ast.Node, timeUsed *string) {
	switch x := n.(type) {
	case *ast.SelectorExpr:
		id, ok := x.X.(*ast.Ident)
		if !ok {
			return
		}
		pn, ok := in.pkg.TypesInfo.Uses[id].(*types.PkgName)
		if !ok {
			return
		}
		switch pn.Imported().Path() {
		case "time":
			switch x.Sel.Name {
			case "Now", "Since", "Until", "LoadLocation":
				in.add(file, x.Pos(), x.End(), in.hook+"."+x.Sel.Name)
				in.seamAt("time."+x.Sel.Name, x.Pos())
				*timeUsed = id.Name
			case "Sleep", "After", "AfterFunc", "Tick", "NewTimer", "NewTicker":
				in.unsupported("time."+x.Sel.Name, x.Pos())
			}
		case "math/rand", "math/rand/v2", "crypto/rand":
			in.unsupported(pn.Imported().Path()+"."+x.Sel.Name, x.Pos())
		case "os":
			switch x.Sel.Name {
			case "Getenv", "LookupEnv", "Environ", "Getpid", "Hostname", "ReadFile", "Open", "OpenFile", "Create", "WriteFile":
				in.unsupported("os."+x.Sel.Name, x.Pos())
			}
		}
	case *ast.CallExpr:
		sel, ok := x.Fun.(*ast.SelectorExpr)
		if !ok {
			return
		}
		s, ok := in.pkg.TypesInfo.Selections[sel]
		if !ok || s.Kind() != types.MethodVal {
			return
		}
		f, ok := s.Obj().(*types.Func)
		if !ok {
			return
		}
		full := f.FullName()
		recvT := in.typeOf(sel.X)
		_, isPtrRecv := recvT.(*types.Pointer)
		amp := "&"
		if isPtrRecv {
			amp = ""
		}
		wrap := func(fn string) {
			// X.M(args) -> simhook.fn(&X, args)
			in.add(file, x.Pos(), sel.X.Pos(), in.hook+"."+fn+"("+amp)
			if len(x.Args) == 0 {
				in.add(file, sel.X.End(), x.End(), ")")
			} else {
				in.add(file, sel.X.End(), x.Args[0].Pos(), ", ")
			}
			in.seamAt(full, x.Pos())
		}
		switch full {
		case "(reflect.Value).MapRange":
			in.add(file, x.Pos(), sel.X.Pos(), in.hook+".MapRange(")
			in.add(file, sel.X.End(), x.End(), ")")
			in.seamAt(full, x.Pos())
		case "(reflect.Value).MapKeys":
			in.add(file, x.Pos(), sel.X.Pos(), in.hook+".MapKeys(")
			in.add(file, sel.X.End(), x.End(), ")")
			in.seamAt(full, x.Pos())
		case "(*sync.Map).Range":
			wrap("SyncMapRange")
		case "(*sync.Mutex).Lock", "(*sync.RWMutex).Lock":
			wrap("Lock")
		case "(*sync.RWMutex).RLock":
			wrap("RLock")
		case "(*sync.Once).Do":
			wrap("OnceDo")
		case "(*sync.WaitGroup).Wait":
			wrap("WGWait")
		case "(*sync.Cond).Wait":
			in.unsupported(full, x.Pos())
		}
	}
}
